// V2 preamble: trusted specification layer for the BasicGarnishData heap unit.
// Real types are extracted from /repo on every run (markers below); only external dependencies
// (SimpleNumber, DataError, derive(Clone)) are given assumed specifications here.
#![allow(unused_imports, unused_variables, dead_code, unused_mut, unreachable_code, unused_parens, non_snake_case)]
use vstd::prelude::*;
use std::cmp::Ordering;
use std::fmt::{Debug, Display};

// trait impls SimpleNumber needs to instantiate Extents<T> (bounds only; never called by the extracted code)
impl PartialEq for SimpleNumber { fn eq(&self, _o: &Self) -> bool { unimplemented!() } }
impl PartialOrd for SimpleNumber { fn partial_cmp(&self, _o: &Self) -> Option<Ordering> { unimplemented!() } }
impl Debug for SimpleNumber { fn fmt(&self, _f: &mut std::fmt::Formatter<'_>) -> std::fmt::Result { unimplemented!() } }

verus! {

//@@EXTRACT enum traits/src/data.rs GarnishDataType
//@@EXTRACT enum traits/src/instructions.rs Instruction
//@@EXTRACT enum data/src/error.rs DataErrorType derive=Clone

// `==` on std::cmp::Ordering (assumed: structural)
pub assume_specification [<Ordering as PartialEq>::eq] (a: &Ordering, b: &Ordering) -> (r: bool) ensures r == (*a == *b);

// derive(Clone) on std::ops::Range clones both ends (assumed)
pub assume_specification<Idx: Clone> [<std::ops::Range<Idx> as Clone>::clone] (x: &std::ops::Range<Idx>) -> (r: std::ops::Range<Idx>)
    ensures call_ensures(Idx::clone, (&x.start,), r.start), call_ensures(Idx::clone, (&x.end,), r.end);

// SimpleNumber (data/src/data/number.rs) is opaque here: unit K1 owns its contracts
#[verifier::external_body]
#[derive(Clone, Copy)]
pub struct SimpleNumber { _p: u8 }
pub type BasicNumber = SimpleNumber;

/// `impl From<SimpleNumber> for usize` (number.rs): clamps negatives to 0, truncates floats; opaque here
pub uninterp spec fn number_to_usize(n: SimpleNumber) -> usize;
#[verifier::external_body]
pub fn number_into_usize(n: SimpleNumber) -> (r: usize)
    ensures r == number_to_usize(n)
{ unimplemented!() }

/// `impl From<&SimpleNumber> for usize` (number.rs), same conversion through a reference
#[verifier::external_body]
pub fn number_ref_into_usize(n: &SimpleNumber) -> (r: usize)
    ensures r == number_to_usize(*n)
{ unimplemented!() }

//@@EXTRACT struct traits/src/data.rs Extents pubfields=1
//@@EXTRACT struct data/src/data/iterators.rs DataIndexIterator pubfields=1
//@@EXTRACT struct data/src/data/iterators.rs CharListIterator pubfields=1
//@@EXTRACT struct data/src/data/iterators.rs ByteListIterator pubfields=1
//@@EXTRACT enum traits/src/data.rs SymbolListPart derive=none
//@@EXTRACT struct data/src/data/iterators.rs SymbolListPartIterator pubfields=1

// DataError (data/src/error.rs): external type, constructors assumed (message text and backtrace dropped)
#[verifier::external_body]
pub struct DataError { _p: u8 }
impl DataError {
    #[verifier::external_body]
    pub fn new(message: &str, error_type: DataErrorType) -> (r: DataError) { unimplemented!() }
    #[verifier::external_body]
    pub fn not_type_error(expected: GarnishDataType, got: GarnishDataType) -> (r: DataError) { unimplemented!() }
    #[verifier::external_body]
    pub fn not_basic_type_error() -> (r: DataError) { unimplemented!() }
}

// marker mirrors of the customisation traits (their default methods are not used by the extracted code)
pub trait BasicDataCustom: Clone {}
/// mirror of data/src/basic/companion.rs::BasicDataCompanion (supertraits other than Clone dropped): the three host hooks, uninterpreted
pub trait BasicDataCompanion<T: BasicDataCustom>: Clone {
    fn resolve(data: &mut BasicGarnishData<T, Self>, symbol: u64) -> Result<bool, DataError>;
    fn apply(data: &mut BasicGarnishData<T, Self>, external_value: usize, input_addr: usize) -> Result<bool, DataError>;
    fn defer_op(data: &mut BasicGarnishData<T, Self>, operation: Instruction, left: (GarnishDataType, usize), right: (GarnishDataType, usize)) -> Result<bool, DataError>;
}

//@@EXTRACT enum data/src/basic/data.rs BasicData derive=none
//@@EXTRACT enum data/src/basic/storage.rs ReallocationStrategy derive=none
//@@EXTRACT struct data/src/basic/storage.rs StorageSettings pubfields=1 derive=Clone
//@@EXTRACT struct data/src/basic/storage.rs StorageBlock pubfields=1 derive=Clone
//@@EXTRACT struct data/src/basic/basic.rs BasicGarnishData pubfields=1 nodefaults=1

// derive(Clone) on BasicData / ReallocationStrategy is a structural copy (assumed; for Custom(T) this is T's own Clone)
impl<T: BasicDataCustom> Clone for BasicData<T> {
    #[verifier::external_body]
    fn clone(&self) -> (r: Self) ensures r == *self { unimplemented!() }
}
impl Clone for ReallocationStrategy {
    #[verifier::external_body]
    fn clone(&self) -> (r: Self) ensures r == *self { unimplemented!() }
}

// ---------------------------------------------------------------------------------
// Abstract view of the heap (C15)
// ---------------------------------------------------------------------------------
/// one block: `cursor` used cells out of `size`, starting at `start`
pub open spec fn block_ok(b: StorageBlock, heap_len: int) -> bool {
    b.cursor <= b.size && b.start + b.size <= heap_len
}

/// the used part of a block, as a sequence (addresses are block-relative indices into it)
pub open spec fn block_view<T: BasicDataCustom>(heap: Seq<BasicData<T>>, b: StorageBlock) -> Seq<BasicData<T>> {
    heap.subrange(b.start as int, b.start + b.cursor)
}

/// `n` cells copied from old[old_start..] to new[new_start..]
pub open spec fn copied<T: BasicDataCustom>(new: Seq<BasicData<T>>, new_start: int, old: Seq<BasicData<T>>, old_start: int, n: int) -> bool {
    forall|j: int| 0 <= j < n ==> #[trigger] new[new_start + j] == old[old_start + j]
}

/// a block copied cell by cell reads the same through its new descriptor
pub proof fn lemma_view_copied<T: BasicDataCustom>(new: Seq<BasicData<T>>, b_new: StorageBlock, old: Seq<BasicData<T>>, b_old: StorageBlock)
    requires
        copied(new, b_new.start as int, old, b_old.start as int, b_old.cursor as int),
        b_new.cursor == b_old.cursor,
        b_new.start + b_new.cursor <= new.len(),
        b_old.start + b_old.cursor <= old.len(),
    ensures
        block_view(new, b_new) =~= block_view(old, b_old),
{
    assert forall|j: int| 0 <= j < b_old.cursor implies block_view(new, b_new)[j] == block_view(old, b_old)[j] by {
        assert(new[b_new.start + j] == old[b_old.start + j]);
    }
}

impl<T: BasicDataCustom, Companion: BasicDataCompanion<T>> BasicGarnishData<T, Companion> {
    /// representation invariant: the six blocks lie back to back in declaration order and tile the heap
    pub open spec fn inv(&self) -> bool {
        &&& self.instruction_block.start == 0
        &&& self.jump_table_block.start == self.instruction_block.start + self.instruction_block.size
        &&& self.symbol_table_block.start == self.jump_table_block.start + self.jump_table_block.size
        &&& self.expression_symbol_block.start == self.symbol_table_block.start + self.symbol_table_block.size
        &&& self.data_block.start == self.expression_symbol_block.start + self.expression_symbol_block.size
        &&& self.custom_data_block.start == self.data_block.start + self.data_block.size
        &&& self.custom_data_block.start + self.custom_data_block.size == self.data.len()
        &&& self.instruction_block.cursor <= self.instruction_block.size
        &&& self.jump_table_block.cursor <= self.jump_table_block.size
        &&& self.symbol_table_block.cursor <= self.symbol_table_block.size
        &&& self.expression_symbol_block.cursor <= self.expression_symbol_block.size
        &&& self.data_block.cursor <= self.data_block.size
        &&& self.custom_data_block.cursor <= self.custom_data_block.size
    }

    pub open spec fn instructions_view(&self) -> Seq<BasicData<T>> { block_view(self.data@, self.instruction_block) }
    pub open spec fn jumps_view(&self) -> Seq<BasicData<T>> { block_view(self.data@, self.jump_table_block) }
    pub open spec fn symbols_view(&self) -> Seq<BasicData<T>> { block_view(self.data@, self.symbol_table_block) }
    pub open spec fn expression_symbols_view(&self) -> Seq<BasicData<T>> { block_view(self.data@, self.expression_symbol_block) }
    pub open spec fn data_view(&self) -> Seq<BasicData<T>> { block_view(self.data@, self.data_block) }
    pub open spec fn custom_view(&self) -> Seq<BasicData<T>> { block_view(self.data@, self.custom_data_block) }

    /// all six tables read the same in `self` and `o`
    pub open spec fn same_views(&self, o: &Self) -> bool {
        &&& self.instructions_view() =~= o.instructions_view()
        &&& self.jumps_view() =~= o.jumps_view()
        &&& self.symbols_view() =~= o.symbols_view()
        &&& self.expression_symbols_view() =~= o.expression_symbols_view()
        &&& self.data_view() =~= o.data_view()
        &&& self.custom_view() =~= o.custom_view()
    }

    /// list-cell invariant (what start_list / add_to_list / end_list establish): header `List(n, m)`, then n item
    /// cells, then m association cells sorted by key, all inside the data table
    pub open spec fn list_wf(&self, addr: usize) -> bool {
        let v = self.data_view();
        addr < v.len() && (match v[addr as int] {
            BasicData::List(len, alen) => {
                &&& addr + 1 + len + alen <= v.len()
                &&& forall|k: int| 0 <= k < len ==> (#[trigger] self.list_items(addr)[k]) is ListItem
                &&& forall|k: int| 0 <= k < alen ==> (#[trigger] self.list_assocs(addr)[k]) is AssociativeItem
                &&& forall|i: int, j: int| 0 <= i < j < alen ==> assoc_key(#[trigger] self.list_assocs(addr)[i]) <= assoc_key(#[trigger] self.list_assocs(addr)[j])
            },
            _ => false,
        })
    }
    pub open spec fn list_len(&self, addr: usize) -> usize {
        match self.data_view()[addr as int] { BasicData::List(len, _) => len, _ => 0 }
    }
    pub open spec fn list_alen(&self, addr: usize) -> usize {
        match self.data_view()[addr as int] { BasicData::List(_, alen) => alen, _ => 0 }
    }
    /// the item cells / association cells of the list at `addr`
    pub open spec fn list_items(&self, addr: usize) -> Seq<BasicData<T>> {
        self.data_view().subrange(addr + 1, addr + 1 + self.list_len(addr))
    }
    pub open spec fn list_assocs(&self, addr: usize) -> Seq<BasicData<T>> {
        self.data_view().subrange(addr + 1 + self.list_len(addr), addr + 1 + self.list_len(addr) + self.list_alen(addr))
    }
    /// item k of the list at `addr`
    pub open spec fn list_item(&self, addr: usize, k: int) -> usize {
        match self.list_items(addr)[k] { BasicData::ListItem(i) => i, _ => 0 }
    }
    /// association k of the list at `addr`
    pub open spec fn list_assoc(&self, addr: usize, k: int) -> BasicData<T> {
        self.list_assocs(addr)[k]
    }

    /// a list under construction at `li` (between start_list and end_list): header UninitializedList(len, count),
    /// `count` item cells written, the association area holds an association or nothing per position, nothing beyond `count`
    pub open spec fn building_wf(&self, li: usize) -> bool {
        let v = self.data_view();
        li < v.len() && (match v[li as int] {
            BasicData::UninitializedList(len, count) => {
                &&& count <= len && li + 1 + 2 * len <= v.len()
                &&& forall|k: int| 0 <= k < count ==> (#[trigger] v[li + 1 + k]) is ListItem
                &&& forall|k: int| 0 <= k < len ==> ((#[trigger] v[li + 1 + len + k]) is Empty || v[li + 1 + len + k] is AssociativeItem)
                &&& forall|k: int| count <= k < len ==> (#[trigger] v[li + 1 + len + k]) is Empty
            },
            _ => false,
        })
    }
    pub open spec fn building_len(&self, li: usize) -> usize { match self.data_view()[li as int] { BasicData::UninitializedList(len, _) => len, _ => 0 } }
    pub open spec fn building_count(&self, li: usize) -> usize { match self.data_view()[li as int] { BasicData::UninitializedList(_, c) => c, _ => 0 } }

    /// a text / byte list / symbol list header at `addr` announces elements that lie inside the data table
    pub open spec fn seq_wf(&self, addr: usize) -> bool {
        let v = self.data_view();
        addr < v.len() ==> (match v[addr as int] {
            BasicData::CharList(n) => addr + 1 + n <= v.len(),
            BasicData::ByteList(n) => addr + 1 + n <= v.len(),
            BasicData::SymbolList(n) => addr + 1 + n <= v.len(),
            _ => true,
        })
    }

    /// the three stacks threaded through the data table are well formed
    pub open spec fn stacks_ok(&self) -> bool {
        reg_ok(self.data_view(), self.current_register) && val_ok(self.data_view(), self.current_value) && frame_ok(self.data_view(), self.current_frame)
    }
    pub open spec fn regs(&self) -> Seq<usize> { reg_seq(self.data_view(), self.current_register) }
    pub open spec fn values(&self) -> Seq<usize> { val_seq(self.data_view(), self.current_value) }
    pub open spec fn frames(&self) -> Seq<(usize, Seq<usize>)> { frame_seq(self.data_view(), self.current_frame) }
    /// nothing but the data table (by appending) and the three stack heads may differ
    pub open spec fn appended_only(&self, o: &Self) -> bool {
        &&& o.data_view().is_prefix_of(self.data_view())
        &&& self.instructions_view() =~= o.instructions_view() && self.jumps_view() =~= o.jumps_view() && self.symbols_view() =~= o.symbols_view()
        &&& self.expression_symbols_view() =~= o.expression_symbols_view() && self.custom_view() =~= o.custom_view()
        &&& self.instruction_pointer == o.instruction_pointer && self.data_retention_count == o.data_retention_count
    }

    /// everything that is not heap layout is untouched
    pub open spec fn same_scalars(&self, o: &Self) -> bool {
        &&& self.current_value == o.current_value
        &&& self.current_register == o.current_register
        &&& self.instruction_pointer == o.instruction_pointer
        &&& self.current_frame == o.current_frame
        &&& self.data_retention_count == o.data_retention_count
        &&& self.instruction_block.settings == o.instruction_block.settings
        &&& self.jump_table_block.settings == o.jump_table_block.settings
        &&& self.symbol_table_block.settings == o.symbol_table_block.settings
        &&& self.expression_symbol_block.settings == o.expression_symbol_block.settings
        &&& self.data_block.settings == o.data_block.settings
        &&& self.custom_data_block.settings == o.custom_data_block.settings
    }
}


// ---------------------------------------------------------------------------------
// Stacks kept inside the data table (C06, C15): linked chains of bookkeeping cells whose links point backwards
// ---------------------------------------------------------------------------------
pub open spec fn chain_rank(cur: Option<usize>) -> nat { match cur { Some(i) => (i + 1) as nat, None => 0 } }

/// operand ("register") stack: Register(previous, value) ... RegisterRoot(value)
pub open spec fn reg_ok<T: BasicDataCustom>(v: Seq<BasicData<T>>, cur: Option<usize>) -> bool
    decreases chain_rank(cur)
{
    match cur {
        None => true,
        Some(i) => i < v.len() && (match v[i as int] {
            BasicData::Register(p, _) => p < i && reg_ok(v, Some(p)),
            BasicData::RegisterRoot(_) => true,
            _ => false,
        }),
    }
}

/// the operand stack as a sequence, top = last
pub open spec fn reg_seq<T: BasicDataCustom>(v: Seq<BasicData<T>>, cur: Option<usize>) -> Seq<usize>
    decreases chain_rank(cur)
{
    match cur {
        None => Seq::empty(),
        Some(i) => if i < v.len() { match v[i as int] {
            BasicData::Register(p, val) => if p < i { reg_seq(v, Some(p)).push(val) } else { Seq::empty() },
            BasicData::RegisterRoot(val) => seq![val],
            _ => Seq::empty(),
        } } else { Seq::empty() },
    }
}

/// appending cells leaves an existing chain as it was (C15 for the operand stack)
pub proof fn lemma_reg_stable<T: BasicDataCustom>(v: Seq<BasicData<T>>, v2: Seq<BasicData<T>>, cur: Option<usize>)
    requires reg_ok(v, cur), v.is_prefix_of(v2)
    ensures reg_ok(v2, cur), reg_seq(v2, cur) == reg_seq(v, cur)
    decreases chain_rank(cur)
{
    match cur {
        None => {},
        Some(i) => {
            assert(v2[i as int] == v[i as int]);
            match v[i as int] { BasicData::Register(p, _) => { lemma_reg_stable(v, v2, Some(p)); }, _ => {} }
        }
    }
}

pub proof fn lemma_reg_len<T: BasicDataCustom>(v: Seq<BasicData<T>>, cur: Option<usize>)
    requires reg_ok(v, cur)
    ensures reg_seq(v, cur).len() <= chain_rank(cur), (cur is Some ==> reg_seq(v, cur).len() >= 1)
    decreases chain_rank(cur)
{
    match cur {
        None => {},
        Some(i) => { match v[i as int] { BasicData::Register(p, _) => { lemma_reg_len(v, Some(p)); }, _ => {} } }
    }
}

/// input-value stack: Value(previous, value) ... ValueRoot(value)
pub open spec fn val_ok<T: BasicDataCustom>(v: Seq<BasicData<T>>, cur: Option<usize>) -> bool
    decreases chain_rank(cur)
{
    match cur {
        None => true,
        Some(i) => i < v.len() && (match v[i as int] {
            BasicData::Value(p, _) => p < i && val_ok(v, Some(p)),
            BasicData::ValueRoot(_) => true,
            _ => false,
        }),
    }
}

pub open spec fn val_seq<T: BasicDataCustom>(v: Seq<BasicData<T>>, cur: Option<usize>) -> Seq<usize>
    decreases chain_rank(cur)
{
    match cur {
        None => Seq::empty(),
        Some(i) => if i < v.len() { match v[i as int] {
            BasicData::Value(p, val) => if p < i { val_seq(v, Some(p)).push(val) } else { Seq::empty() },
            BasicData::ValueRoot(val) => seq![val],
            _ => Seq::empty(),
        } } else { Seq::empty() },
    }
}

pub proof fn lemma_val_stable<T: BasicDataCustom>(v: Seq<BasicData<T>>, v2: Seq<BasicData<T>>, cur: Option<usize>)
    requires val_ok(v, cur), v.is_prefix_of(v2)
    ensures val_ok(v2, cur), val_seq(v2, cur) == val_seq(v, cur)
    decreases chain_rank(cur)
{
    match cur {
        None => {},
        Some(i) => {
            assert(v2[i as int] == v[i as int]);
            match v[i as int] { BasicData::Value(p, _) => { lemma_val_stable(v, v2, Some(p)); }, _ => {} }
        }
    }
}

/// call frames: a frame cell at i (Frame / FrameIndex / FrameRegister / FrameRoot) preceded by JumpPoint(return) at i-1;
/// a frame records the head of the operand stack at the call
pub open spec fn frame_prev<T: BasicDataCustom>(d: BasicData<T>) -> Option<usize> {
    match d { BasicData::Frame(p, _) => Some(p), BasicData::FrameIndex(p) => Some(p), _ => None }
}
pub open spec fn frame_reg<T: BasicDataCustom>(d: BasicData<T>) -> Option<usize> {
    match d { BasicData::Frame(_, r) => Some(r), BasicData::FrameRegister(r) => Some(r), _ => None }
}
pub open spec fn is_frame_cell<T: BasicDataCustom>(d: BasicData<T>) -> bool {
    d is Frame || d is FrameIndex || d is FrameRegister || d is FrameRoot
}
pub open spec fn frame_ok<T: BasicDataCustom>(v: Seq<BasicData<T>>, cur: Option<usize>) -> bool
    decreases chain_rank(cur)
{
    match cur {
        None => true,
        Some(i) => 1 <= i < v.len() && is_frame_cell(v[i as int]) && v[i - 1] is JumpPoint
            && reg_ok(v, frame_reg(v[i as int])) && (frame_reg(v[i as int]) matches Some(r) ==> r < i)
            && (match frame_prev(v[i as int]) { Some(p) => p < i && frame_ok(v, Some(p)), None => true }),
    }
}
/// (return address, operand stack saved at the call) per frame, innermost last
pub open spec fn frame_seq<T: BasicDataCustom>(v: Seq<BasicData<T>>, cur: Option<usize>) -> Seq<(usize, Seq<usize>)>
    decreases chain_rank(cur)
{
    match cur {
        None => Seq::empty(),
        Some(i) => if 1 <= i < v.len() && is_frame_cell(v[i as int]) {
            let ret = match v[i - 1] { BasicData::JumpPoint(r) => r, _ => 0 };
            let here = (ret, reg_seq(v, frame_reg(v[i as int])));
            match frame_prev(v[i as int]) { Some(p) => if p < i { frame_seq(v, Some(p)).push(here) } else { seq![here] }, None => seq![here] }
        } else { Seq::empty() },
    }
}
pub proof fn lemma_frame_stable<T: BasicDataCustom>(v: Seq<BasicData<T>>, v2: Seq<BasicData<T>>, cur: Option<usize>)
    requires frame_ok(v, cur), v.is_prefix_of(v2)
    ensures frame_ok(v2, cur), frame_seq(v2, cur) == frame_seq(v, cur)
    decreases chain_rank(cur)
{
    match cur {
        None => {},
        Some(i) => {
            assert(v2[i as int] == v[i as int]);
            assert(v2[i - 1] == v[i - 1]);
            lemma_reg_stable(v, v2, frame_reg(v[i as int]));
            match frame_prev(v[i as int]) { Some(p) => { lemma_frame_stable(v, v2, Some(p)); }, None => {} }
        }
    }
}

/// `v2` is `v` with the value field of the input-value cell at `t` rewritten (what a write through get_current_value_mut does)
pub open spec fn value_rewritten<T: BasicDataCustom>(v: Seq<BasicData<T>>, v2: Seq<BasicData<T>>, t: usize) -> bool {
    t < v.len() && v2.len() == v.len() && (forall|i: int| 0 <= i < v.len() && i != t ==> v2[i] == v[i])
      && (match v[t as int] {
            BasicData::Value(p, _) => v2[t as int] matches BasicData::Value(p2, _) && p2 == p,
            BasicData::ValueRoot(_) => v2[t as int] is ValueRoot,
            _ => false })
}
/// the input-value cell at `t` holds `x`
pub open spec fn top_holds<T: BasicDataCustom>(v2: Seq<BasicData<T>>, t: usize, x: usize) -> bool {
    t < v2.len() && (match v2[t as int] { BasicData::Value(_, y) => y == x, BasicData::ValueRoot(y) => y == x, _ => false })
}
/// rewriting an input-value cell leaves the operand stack as it was
pub proof fn lemma_reg_rewrite_stable<T: BasicDataCustom>(v: Seq<BasicData<T>>, v2: Seq<BasicData<T>>, t: usize, cur: Option<usize>)
    requires reg_ok(v, cur), value_rewritten(v, v2, t)
    ensures reg_ok(v2, cur), reg_seq(v2, cur) == reg_seq(v, cur)
    decreases chain_rank(cur)
{
    match cur {
        None => {},
        Some(i) => {
            assert(i != t);
            assert(v2[i as int] == v[i as int]);
            match v[i as int] { BasicData::Register(p, _) => { lemma_reg_rewrite_stable(v, v2, t, Some(p)); }, _ => {} }
        }
    }
}
/// ... and the part of the input-value chain below the rewritten cell
pub proof fn lemma_val_rewrite_below<T: BasicDataCustom>(v: Seq<BasicData<T>>, v2: Seq<BasicData<T>>, t: usize, cur: Option<usize>)
    requires val_ok(v, cur), value_rewritten(v, v2, t), cur matches Some(c) ==> c < t
    ensures val_ok(v2, cur), val_seq(v2, cur) == val_seq(v, cur)
    decreases chain_rank(cur)
{
    match cur {
        None => {},
        Some(i) => {
            assert(v2[i as int] == v[i as int]);
            match v[i as int] { BasicData::Value(p, _) => { lemma_val_rewrite_below(v, v2, t, Some(p)); }, _ => {} }
        }
    }
}
/// ... and the frame chain with the operand stacks it recorded
pub proof fn lemma_frame_rewrite_stable<T: BasicDataCustom>(v: Seq<BasicData<T>>, v2: Seq<BasicData<T>>, t: usize, cur: Option<usize>)
    requires frame_ok(v, cur), value_rewritten(v, v2, t)
    ensures frame_ok(v2, cur), frame_seq(v2, cur) == frame_seq(v, cur)
    decreases chain_rank(cur)
{
    match cur {
        None => {},
        Some(i) => {
            assert(i != t && i - 1 != t);
            assert(v2[i as int] == v[i as int]);
            assert(v2[i - 1] == v[i - 1]);
            lemma_reg_rewrite_stable(v, v2, t, frame_reg(v[i as int]));
            match frame_prev(v[i as int]) { Some(p) => { lemma_frame_rewrite_stable(v, v2, t, Some(p)); }, None => {} }
        }
    }
}
//@@LEMMA C06
pub proof fn lemma_write_through_top_value<T: BasicDataCustom>(v: Seq<BasicData<T>>, v2: Seq<BasicData<T>>, t: usize, regs: Option<usize>, frames: Option<usize>, newval: usize)
    requires reg_ok(v, regs), val_ok(v, Some(t)), frame_ok(v, frames), value_rewritten(v, v2, t),
        top_holds(v2, t, newval),
    ensures
        // writing through the reference replaces the top of the input-value stack (its depth stays) and moves nothing else
        val_ok(v2, Some(t)), val_seq(v2, Some(t)) == val_seq(v, Some(t)).drop_last().push(newval),
        reg_ok(v2, regs), reg_seq(v2, regs) == reg_seq(v, regs),
        frame_ok(v2, frames), frame_seq(v2, frames) == frame_seq(v, frames),
{
    lemma_reg_rewrite_stable(v, v2, t, regs);
    lemma_frame_rewrite_stable(v, v2, t, frames);
    match v[t as int] {
        BasicData::Value(p, x) => {
            lemma_val_rewrite_below(v, v2, t, Some(p));
            assert(val_seq(v, Some(t)) == val_seq(v, Some(p)).push(x));
            assert(val_seq(v, Some(p)).push(x).drop_last() =~= val_seq(v, Some(p)));
        },
        BasicData::ValueRoot(x) => {
            assert(seq![x].drop_last().push(newval) =~= seq![newval]);
        },
        _ => {},
    }
}

// <[T]>::reverse (assumed; std): the elements in opposite order
pub assume_specification<T> [<[T]>::reverse] (s: &mut [T])
    ensures final(s)@ == old(s)@.reverse();

/// a cell that is bookkeeping only (no Garnish value lives there)
pub open spec fn is_bookkeeping<T: BasicDataCustom>(d: BasicData<T>) -> bool { basic_type_of(d) == GarnishDataType::Invalid }

/// the Garnish type of a heap cell (what get_data_type reports); bookkeeping cells are Invalid
pub open spec fn basic_type_of<T: BasicDataCustom>(d: BasicData<T>) -> GarnishDataType {
    match d {
        BasicData::Unit => GarnishDataType::Unit,
        BasicData::True => GarnishDataType::True,
        BasicData::False => GarnishDataType::False,
        BasicData::Type(_) => GarnishDataType::Type,
        BasicData::Number(_) => GarnishDataType::Number,
        BasicData::Char(_) => GarnishDataType::Char,
        BasicData::Byte(_) => GarnishDataType::Byte,
        BasicData::Symbol(_) => GarnishDataType::Symbol,
        BasicData::SymbolList(_) => GarnishDataType::SymbolList,
        BasicData::Expression(_) => GarnishDataType::Expression,
        BasicData::External(_) => GarnishDataType::External,
        BasicData::CharList(_) => GarnishDataType::CharList,
        BasicData::ByteList(_) => GarnishDataType::ByteList,
        BasicData::Pair(_, _) => GarnishDataType::Pair,
        BasicData::Range(_, _) => GarnishDataType::Range,
        BasicData::Slice(_, _) => GarnishDataType::Slice,
        BasicData::Partial(_, _) => GarnishDataType::Partial,
        BasicData::List(_, _) => GarnishDataType::List,
        BasicData::Concatenation(_, _) => GarnishDataType::Concatenation,
        BasicData::Custom(_) => GarnishDataType::Custom,
        _ => GarnishDataType::Invalid,
    }
}

/// key / value of an association cell
pub open spec fn assoc_key<T: BasicDataCustom>(d: BasicData<T>) -> u64 {
    match d { BasicData::AssociativeItem(k, _) => k, _ => 0 }
}
pub open spec fn assoc_val<T: BasicDataCustom>(d: BasicData<T>) -> usize {
    match d { BasicData::AssociativeItem(_, v) => v, _ => 0 }
}


/// the next append to the data table fits: the block has room, or the configured growth makes progress and fits the machine
pub open spec fn push_ok<T: BasicDataCustom, C: BasicDataCompanion<T>>(s: BasicGarnishData<T, C>) -> bool {
    s.data_block.cursor >= s.data_block.size ==> (next_size_spec(s.data_block) > s.data_block.size
        && s.instruction_block.size + s.jump_table_block.size + s.symbol_table_block.size + s.expression_symbol_block.size + next_size_spec(s.data_block) + s.custom_data_block.size <= usize::MAX)
}

/// `m` is `s` after one append to the data table (what push_to_data_block ensures)
pub open spec fn pushed_one<T: BasicDataCustom, C: BasicDataCompanion<T>>(s: BasicGarnishData<T, C>, m: BasicGarnishData<T, C>) -> bool {
    m.inv() && m.data_view().len() == s.data_view().len() + 1 && s.data_view().is_prefix_of(m.data_view())
    && m.instructions_view() =~= s.instructions_view() && m.jumps_view() =~= s.jumps_view() && m.symbols_view() =~= s.symbols_view()
    && m.expression_symbols_view() =~= s.expression_symbols_view() && m.custom_view() =~= s.custom_view() && m.same_scalars(&s)
}

/// the next n appends to the data table fit (memory is not exhausted within the call): the stated pre-condition of
/// every method that appends a number of cells
pub open spec fn push_ok_n<T: BasicDataCustom, C: BasicDataCompanion<T>>(s: BasicGarnishData<T, C>, n: nat) -> bool
    decreases n
{
    n == 0 || (push_ok(s) && forall|m: BasicGarnishData<T, C>| #[trigger] pushed_one(s, m) ==> push_ok_n(m, (n - 1) as nat))
}

/// a growth request "makes progress" and fits the machine: next_size is bigger than size and does not overflow
pub open spec fn next_size_spec(b: StorageBlock) -> int {
    match b.settings.reallocation_strategy {
        ReallocationStrategy::FixedSize(s) => b.size + s,
        ReallocationStrategy::Multiplicative(m) => b.size * m,
    }
}

/// the address a list-item cell holds
pub open spec fn item_addr<T: BasicDataCustom>(d: BasicData<T>) -> usize { match d { BasicData::ListItem(i) => i, _ => 0 } }

/// Stands for the middle of garnish_impl.rs::end_list (rule R8-cut): `&mut self.data_mut()[range]` (vstd gives IndexMut over a range
/// no specification), the loop that counts the non-Empty cells of that window, and `slice::sort_by` with the comparator
/// "associations by symbol first, everything else after". Assumed: std's sort is a permutation of the window that is sorted
/// for that comparator and touches nothing outside it; the count is the number of cells that are not Empty.
#[verifier::external_body]
pub fn verif_count_and_sort_associations<T: BasicDataCustom>(data: &mut Vec<BasicData<T>>, start: usize, end: usize) -> (count: usize)
    requires
        start <= end <= old(data)@.len(),
        forall|k: int| start <= k < end ==> ((#[trigger] old(data)@[k]) is Empty || old(data)@[k] is AssociativeItem),
    ensures
        final(data)@.len() == old(data)@.len(),
        forall|k: int| 0 <= k < old(data)@.len() && !(start <= k < end) ==> #[trigger] final(data)@[k] == old(data)@[k],
        count <= end - start,
        forall|k: int| start <= k < start + count ==> (#[trigger] final(data)@[k]) is AssociativeItem,
        forall|k: int| start + count <= k < end ==> (#[trigger] final(data)@[k]) is Empty,
        forall|i: int, j: int| start <= i < j < start + count ==> assoc_key(#[trigger] final(data)@[i]) <= assoc_key(#[trigger] final(data)@[j]),
        // a permutation: every association of the window is still there
        forall|j: int| start <= j < end && (#[trigger] old(data)@[j]) is AssociativeItem ==> exists|k: int| start <= k < start + count && #[trigger] final(data)@[k] == old(data)@[j],
{ unimplemented!() }

/// Stand for `<slice>.iter().map(|c| c.as_char().unwrap()).collect()` / `.as_byte()` in get_char_list_iter / get_byte_list_iter
/// (iterator adapters, rule R8-cut; the slicing expression itself stays in the verified text). Assumed: one element per cell of
/// the window; a cell that is not a Char / Byte would make the real `unwrap()` panic - the window is required to hold only such cells.
#[verifier::external_body]
pub fn verif_chars_of<T: BasicDataCustom>(window: &[BasicData<T>]) -> (r: Vec<char>)
    requires forall|k: int| 0 <= k < window@.len() ==> (#[trigger] window@[k]) is Char
    ensures r@.len() == window@.len(), forall|k: int| 0 <= k < window@.len() ==> window@[k] == BasicData::<T>::Char(#[trigger] r@[k])
{ unimplemented!() }
#[verifier::external_body]
pub fn verif_bytes_of<T: BasicDataCustom>(window: &[BasicData<T>]) -> (r: Vec<u8>)
    requires forall|k: int| 0 <= k < window@.len() ==> (#[trigger] window@[k]) is Byte
    ensures r@.len() == window@.len(), forall|k: int| 0 <= k < window@.len() ==> window@[k] == BasicData::<T>::Byte(#[trigger] r@[k])
{ unimplemented!() }

/// Stands for the `.iter().map(..).collect::<Result<Vec<_>, _>>()` chain of get_symbol_list_iter (rule R8-cut; the slicing
/// expression stays in the verified text). Assumed: reads the window only.
#[verifier::external_body]
pub fn verif_symbol_parts_of<T: BasicDataCustom>(window: &[BasicData<T>]) -> (r: Result<Vec<SymbolListPart<u64, BasicNumber>>, DataError>)
    ensures r matches Ok(v) ==> v@.len() == window@.len()
{ unimplemented!() }

/// Stands for `for item in list_iter { items.push(item); }` in get_concatenation_iter (a `for` over a user-defined iterator has no
/// ghost iterator in vstd; rule R8-cut). Assumed: appends what the iterator has still to yield.
#[verifier::external_body]
pub fn verif_drain_into(list_iter: DataIndexIterator, items: &mut Vec<usize>)
    ensures final(items)@ == old(items)@ + list_iter.rem()
{ unimplemented!() }

// slice::to_vec (assumed): an element-wise clone of the slice
pub assume_specification<T: Clone> [<[T]>::to_vec] (s: &[T]) -> (r: Vec<T>)
    ensures r@.len() == s@.len(), forall|i: int| 0 <= i < s@.len() ==> call_ensures(T::clone, (&s@[i],), #[trigger] r@[i]);

/// Stands for `Extents::new(0.into(), BasicNumber::max_value())` (number literals of the opaque SimpleNumber; rule R8)
#[verifier::external_body]
pub fn verif_all_extents() -> (r: Extents<BasicNumber>)
    ensures number_to_usize(r.start) == 0, number_to_usize(r.end) == usize::MAX  // 0 -> 0; Float(f64::MAX) saturates
{ unimplemented!() }

impl DataIndexIterator {
    /// the items the iterator has still to yield, in order
    pub open spec fn rem(&self) -> Seq<usize> {
        if self.current <= self.items@.len() { self.items@.skip(self.current as int) } else { Seq::empty() }
    }
}

// ---------------------------------------------------------------------------------
// C11 / C16: the flat item sequence of a concatenation over Basic's data table (the same reading as unit V1's `walk`):
// a concatenation is replaced by its two sides, a list contributes the addresses its item cells hold, any other value itself
// ---------------------------------------------------------------------------------
pub open spec fn cat_opt<X>(v: Seq<X>, t: Option<Seq<X>>) -> Option<Seq<X>> {
    match t { Some(x) => Some(v + x), None => None }
}
/// what the value at `r` contributes
pub open spec fn hereB<T: BasicDataCustom>(v: Seq<BasicData<T>>, r: usize) -> Seq<usize> {
    match v[r as int] { BasicData::List(len, _) => Seq::new(len as nat, |k: int| item_addr(v[r + 1 + k])), _ => seq![r] }
}
pub open spec fn walkB<T: BasicDataCustom>(v: Seq<BasicData<T>>, work: Seq<usize>, fuel: nat) -> Option<Seq<usize>>
    decreases fuel
{
    if work.len() == 0 { Some(Seq::empty()) }
    else if fuel == 0 { None }
    else {
        let r = work.last(); let rest = work.drop_last();
        if r >= v.len() { None }
        else { match v[r as int] {
            BasicData::Concatenation(l, rr) => walkB(v, rest.push(rr).push(l), (fuel - 1) as nat),
            _ => cat_opt(hereB(v, r), walkB(v, rest, (fuel - 1) as nat)),
        } }
    }
}
pub open spec fn walkedB<T: BasicDataCustom>(v: Seq<BasicData<T>>, w0: Seq<usize>, vis: Seq<usize>, work: Seq<usize>, k: nat) -> bool {
    (forall|f: nat| f < k ==> (#[trigger] walkB(v, w0, f)) is None)
    && (forall|f: nat| f >= k ==> #[trigger] walkB(v, w0, f) == cat_opt(vis, walkB(v, work, (f - k) as nat)))
}
pub proof fn lemma_walkedB_init<T: BasicDataCustom>(v: Seq<BasicData<T>>, w0: Seq<usize>)
    ensures walkedB(v, w0, Seq::empty(), w0, 0)
{
    assert forall|f: nat| f >= 0 implies #[trigger] walkB(v, w0, f) == cat_opt(Seq::<usize>::empty(), walkB(v, w0, (f - 0) as nat)) by {
        match walkB(v, w0, f) { Some(x) => { assert(Seq::<usize>::empty() + x =~= x); } None => {} }
    }
}
pub proof fn lemma_walkedB_concat<T: BasicDataCustom>(v: Seq<BasicData<T>>, w0: Seq<usize>, vis: Seq<usize>, wb: Seq<usize>, k: nat, l: usize, r: usize)
    requires walkedB(v, w0, vis, wb, k), wb.len() > 0, wb.last() < v.len(), v[wb.last() as int] matches BasicData::Concatenation(a, b) && a == l && b == r,
    ensures walkedB(v, w0, vis, wb.drop_last().push(r).push(l), k + 1)
{
    let wn = wb.drop_last().push(r).push(l);
    assert forall|f: nat| f >= k + 1 implies #[trigger] walkB(v, w0, f) == cat_opt(vis, walkB(v, wn, (f - (k + 1)) as nat)) by {
        assert(walkB(v, w0, f) == cat_opt(vis, walkB(v, wb, (f - k) as nat)));
        assert(walkB(v, wb, (f - k) as nat) == walkB(v, wn, (f - k - 1) as nat));
    }
    assert forall|f: nat| f < k + 1 implies (#[trigger] walkB(v, w0, f)) is None by {
        if f == k { assert(walkB(v, w0, f) == cat_opt(vis, walkB(v, wb, 0))); }
    }
}
pub proof fn lemma_walkedB_value<T: BasicDataCustom>(v: Seq<BasicData<T>>, w0: Seq<usize>, vis: Seq<usize>, wb: Seq<usize>, k: nat)
    requires walkedB(v, w0, vis, wb, k), wb.len() > 0, wb.last() < v.len(), !(v[wb.last() as int] is Concatenation),
    ensures walkedB(v, w0, vis + hereB(v, wb.last()), wb.drop_last(), k + 1)
{
    let wn = wb.drop_last(); let h = hereB(v, wb.last());
    assert forall|f: nat| f >= k + 1 implies #[trigger] walkB(v, w0, f) == cat_opt(vis + h, walkB(v, wn, (f - (k + 1)) as nat)) by {
        assert(walkB(v, w0, f) == cat_opt(vis, walkB(v, wb, (f - k) as nat)));
        let t = walkB(v, wn, (f - k - 1) as nat);
        assert(walkB(v, wb, (f - k) as nat) == cat_opt(h, t));
        match t { Some(x) => { assert(vis + (h + x) =~= (vis + h) + x); } None => {} }
    }
    assert forall|f: nat| f < k + 1 implies (#[trigger] walkB(v, w0, f)) is None by {
        if f == k { assert(walkB(v, w0, f) == cat_opt(vis, walkB(v, wb, 0))); }
    }
}
pub proof fn lemma_walkedB_done<T: BasicDataCustom>(v: Seq<BasicData<T>>, w0: Seq<usize>, vis: Seq<usize>, k: nat, fuel: nat, flat: Seq<usize>)
    requires walkedB(v, w0, vis, Seq::empty(), k), walkB(v, w0, fuel) == Some(flat),
    ensures flat == vis,
{
    if fuel < k { assert(walkB(v, w0, fuel) is None); }
    else {
        assert(walkB(v, w0, fuel) == cat_opt(vis, walkB(v, Seq::<usize>::empty(), (fuel - k) as nat)));
        assert(vis + Seq::<usize>::empty() =~= vis);
    }
}

} // verus!
