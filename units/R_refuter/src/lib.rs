#![allow(unused_imports, dead_code)]
//! Unit R: the real runtime functions run over ModelData (an executable form of the GarnishData trait contract) on
//! bounded families of states. Bounded: reported separately, never counted as proved. Its purpose is the concrete
//! failing input the Verus units cannot give, and a second line where a proof is lost to a refactor.
pub mod model;
pub mod bodies;

pub trait Src {
    fn i32(&mut self) -> i32;
    fn f64(&mut self) -> f64;
    fn bool(&mut self) -> bool;
    fn u8(&mut self) -> u8;
    fn u64(&mut self) -> u64;
    fn chr(&mut self) -> char;
    /// a value in 0..n
    fn below(&mut self, n: usize) -> usize;
    fn assume(&mut self, c: bool);
    fn check(&mut self, c: bool, what: &'static str);
}

#[cfg(kani)]
mod harness {
    use crate::Src;
    struct K;
    impl Src for K {
        fn i32(&mut self) -> i32 { kani::any() }
        fn f64(&mut self) -> f64 { kani::any() }
        fn bool(&mut self) -> bool { kani::any() }
        fn u8(&mut self) -> u8 { kani::any() }
        fn u64(&mut self) -> u64 { kani::any() }
        fn chr(&mut self) -> char { kani::any() }
        fn below(&mut self, n: usize) -> usize { let v: u8 = kani::any(); kani::assume((v as usize) < n); v as usize }
        fn assume(&mut self, c: bool) { kani::assume(c) }
        fn check(&mut self, c: bool, what: &'static str) { assert!(c, "{}", what) }
    }
    /// message formatting carries no property and dominates CBMC time
    fn no_format(_args: std::fmt::Arguments<'_>) -> String { String::new() }

    macro_rules! proof {
        ($($name:ident / $unwind:expr),* $(,)?) => { $(
            #[kani::proof]
            #[kani::unwind($unwind)]
            #[kani::stub(alloc::fmt::format, no_format)]
            fn $name() { crate::bodies::$name(&mut K) }
        )* };
    }
    proof!(eq_text / 8, eq_text_symmetric / 8, eq_bytes / 8, eq_concatenations / 10, cmp_text / 8, truthiness / 8, xor_classifies / 8, end_expression_returns_to_caller / 6, defer_protocol / 8, access_list / 8, access_concat_index / 6);
}
