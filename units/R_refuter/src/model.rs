//! ModelData: an executable, array-backed `GarnishData` implementation that follows the trait contract of
//! units/V1_runtime/preamble.rs literally (DESIGN section 3) and records every call that reaches a host extension
//! point. It stands for "any conforming data object" at bounded size: fixed capacities, no heap allocation, no
//! hashing. `Number` is the real `SimpleNumber`. The real runtime functions are run over it by the R harnesses.
use garnish_lang_simple_data::SimpleNumber;
use garnish_lang_traits::{Extents, GarnishData, GarnishDataFactory, GarnishDataType, Instruction, SymbolListPart};
use std::fmt::{Debug, Display, Formatter};

pub const NCELLS: usize = 12;
pub const NSEQ: usize = 3;
pub const NREGS: usize = 10;
pub const NSTACK: usize = 4;
pub const NINSTR: usize = 4;
pub const NHOST: usize = 3;

#[derive(Debug, Clone, Copy, PartialEq)]
pub struct MErr(pub u8);
impl Display for MErr { fn fmt(&self, f: &mut Formatter<'_>) -> std::fmt::Result { f.write_str("model data error") } }
impl std::error::Error for MErr {}

#[derive(Debug, Clone, Copy, PartialEq)]
pub enum MCell {
    Unit, True, False,
    Type(GarnishDataType), Number(SimpleNumber), Char(char), Byte(u8), Symbol(u64),
    Expression(usize), External(usize),
    Pair(usize, usize), Range(usize, usize), Slice(usize, usize), Partial(usize, usize), Concatenation(usize, usize),
    List([usize; NSEQ], usize),
    CharList([char; NSEQ], usize),
    ByteList([u8; NSEQ], usize),
    SymbolList([u64; NSEQ], usize),
}

impl MCell {
    pub fn ty(&self) -> GarnishDataType {
        match self {
            MCell::Unit => GarnishDataType::Unit, MCell::True => GarnishDataType::True, MCell::False => GarnishDataType::False,
            MCell::Type(_) => GarnishDataType::Type, MCell::Number(_) => GarnishDataType::Number, MCell::Char(_) => GarnishDataType::Char,
            MCell::Byte(_) => GarnishDataType::Byte, MCell::Symbol(_) => GarnishDataType::Symbol, MCell::Expression(_) => GarnishDataType::Expression,
            MCell::External(_) => GarnishDataType::External, MCell::Pair(..) => GarnishDataType::Pair, MCell::Range(..) => GarnishDataType::Range,
            MCell::Slice(..) => GarnishDataType::Slice, MCell::Partial(..) => GarnishDataType::Partial, MCell::Concatenation(..) => GarnishDataType::Concatenation,
            MCell::List(..) => GarnishDataType::List, MCell::CharList(..) => GarnishDataType::CharList, MCell::ByteList(..) => GarnishDataType::ByteList,
            MCell::SymbolList(..) => GarnishDataType::SymbolList,
        }
    }
}

#[derive(Debug, Clone, Copy, PartialEq)]
pub enum HostCall { Defer(Instruction, (GarnishDataType, usize), (GarnishDataType, usize)), Resolve(u64), Apply(usize, usize) }

/// fixed-capacity iterator (what the data object hands out for items / chars / bytes / symbol-list parts)
#[derive(Debug, Clone, Copy)]
pub struct ArrIter<T: Copy> { pub items: [T; 2 * NSEQ], pub pos: usize, pub len: usize }
impl<T: Copy> Iterator for ArrIter<T> {
    type Item = T;
    fn next(&mut self) -> Option<T> { if self.pos < self.len { let v = self.items[self.pos]; self.pos += 1; Some(v) } else { None } }
}
impl<T: Copy> DoubleEndedIterator for ArrIter<T> {
    fn next_back(&mut self) -> Option<T> { if self.pos < self.len { self.len -= 1; Some(self.items[self.len]) } else { None } }
}
/// symbol-list parts (SymbolListPart is not Copy)
#[derive(Debug, Clone, Copy)]
pub struct PartIter { pub inner: ArrIter<u64> }
impl Iterator for PartIter {
    type Item = SymbolListPart<u64, SimpleNumber>;
    fn next(&mut self) -> Option<Self::Item> { self.inner.next().map(SymbolListPart::Symbol) }
}
fn arr_iter<T: Copy>(src: &[T], n: usize, fill: T, lo: usize, hi: usize) -> ArrIter<T> {
    let mut items = [fill; 2 * NSEQ];
    let mut len = 0;
    let mut i = lo;
    while i < hi && i < n && len < 2 * NSEQ { items[len] = src[i]; len += 1; i += 1; }
    ArrIter { items, pos: 0, len }
}

#[derive(Debug, Clone, Copy)]
pub struct ModelData {
    pub cells: [MCell; NCELLS], pub ncells: usize,
    pub regs: [usize; NREGS], pub nregs: usize,
    pub values: [usize; NSTACK], pub nvalues: usize,
    pub frames: [(usize, usize); NSTACK], pub nframes: usize, // (return address, operand depth at the call)
    pub jumps: [usize; NSTACK], pub njumps: usize,
    pub instr_len: usize, pub cursor: usize,
    /// a small instruction table (the first `ninstr` entries; harnesses that need one fill it, the others leave it empty)
    pub instrs: [Instruction; NINSTR], pub ninstr: usize,
    pub host: [Option<(HostCall, bool)>; NHOST], pub nhost: usize,
    /// scripted host: answers of the next host calls; an accepting host pushes `host_result` as its single result
    pub host_accepts: bool, pub host_result: usize,
    pub building: Option<(usize, [usize; NSEQ], usize)>, // (capacity, items, count)
    /// when set, the next adder fails (data objects may fail; the runtime must only propagate)
    pub fail_adds: bool,
}

impl ModelData {
    pub fn new() -> Self {
        ModelData { cells: [MCell::Unit; NCELLS], ncells: 0, regs: [0; NREGS], nregs: 0, values: [0; NSTACK], nvalues: 0, frames: [(0, 0); NSTACK], nframes: 0,
            jumps: [0; NSTACK], njumps: 0, instr_len: 0, cursor: 0, instrs: [Instruction::Invalid; NINSTR], ninstr: 0, host: [None; NHOST], nhost: 0, host_accepts: false, host_result: 0, building: None, fail_adds: false }
    }
    pub fn add(&mut self, c: MCell) -> Result<usize, MErr> {
        if self.fail_adds || self.ncells >= NCELLS { return Err(MErr(1)); }
        self.cells[self.ncells] = c; self.ncells += 1; Ok(self.ncells - 1)
    }
    pub fn cell(&self, a: usize) -> Result<MCell, MErr> { if a < self.ncells { Ok(self.cells[a]) } else { Err(MErr(2)) } }
    pub fn top(&self) -> Option<MCell> { if self.nregs > 0 { self.cell(self.regs[self.nregs - 1]).ok() } else { None } }
    fn log(&mut self, c: HostCall) -> Result<bool, MErr> {
        if self.nhost >= NHOST { return Err(MErr(3)); }
        let acc = self.host_accepts;
        self.host[self.nhost] = Some((c, acc)); self.nhost += 1;
        if acc { self.push_register(self.host_result)?; }
        Ok(acc)
    }
    /// the window an Extents value selects in a sequence of length n (clamped; end exclusive)
    fn window(n: usize, e: &Extents<SimpleNumber>) -> (usize, usize) {
        let lo: usize = (*e.start()).into();
        let hi: usize = (*e.end()).into();
        let lo = if lo > n { n } else { lo };
        let hi = if hi > n { n } else { hi };
        (lo, if hi < lo { lo } else { hi })
    }
    /// flat items of a concatenation (lists contribute their items, other values themselves), at most 2*NSEQ, depth 2
    pub fn flat(&self, a: usize, out: &mut [usize; 2 * NSEQ], n: &mut usize, depth: usize) {
        if a >= self.ncells { return; }
        match self.cells[a] {
            MCell::Concatenation(l, r) if depth > 0 => { self.flat(l, out, n, depth - 1); self.flat(r, out, n, depth - 1); }
            MCell::List(items, k) => { let mut i = 0; while i < k && i < NSEQ { if *n < 2 * NSEQ { out[*n] = items[i]; *n += 1; } i += 1; } }
            _ => { if *n < 2 * NSEQ { out[*n] = a; *n += 1; } }
        }
    }
}

pub struct MFactory;
impl GarnishDataFactory<usize, SimpleNumber, char, u8, u64, MErr, ArrIter<usize>, ArrIter<SimpleNumber>> for MFactory {
    fn size_to_number(from: usize) -> SimpleNumber { SimpleNumber::Integer(from as i32) }
    fn number_to_size(from: SimpleNumber) -> Option<usize> { Some(from.into()) }
    fn number_to_char(_from: SimpleNumber) -> Option<char> { None }
    fn number_to_byte(_from: SimpleNumber) -> Option<u8> { None }
    fn char_to_number(_from: char) -> Option<SimpleNumber> { None }
    fn char_to_byte(_from: char) -> Option<u8> { None }
    fn byte_to_number(_from: u8) -> Option<SimpleNumber> { None }
    fn byte_to_char(_from: u8) -> Option<char> { None }
    fn parse_number(_from: &str) -> Result<SimpleNumber, MErr> { Err(MErr(9)) }
    fn parse_symbol(_from: &str) -> Result<u64, MErr> { Err(MErr(9)) }
    fn parse_char(_from: &str) -> Result<char, MErr> { Err(MErr(9)) }
    fn parse_byte(_from: &str) -> Result<u8, MErr> { Err(MErr(9)) }
    fn parse_char_list(_from: &str) -> Result<Vec<char>, MErr> { Err(MErr(9)) }
    fn parse_byte_list(_from: &str) -> Result<Vec<u8>, MErr> { Err(MErr(9)) }
    fn make_size_iterator_range(_min: usize, _max: usize) -> ArrIter<usize> { ArrIter { items: [0; 2 * NSEQ], pos: 0, len: 0 } }
    fn make_number_iterator_range(_min: SimpleNumber, _max: SimpleNumber) -> ArrIter<SimpleNumber> { ArrIter { items: [SimpleNumber::Integer(0); 2 * NSEQ], pos: 0, len: 0 } }
}

macro_rules! reader {
    ($name:ident, $ret:ty, $pat:pat => $val:expr) => {
        fn $name(&self, addr: usize) -> Result<$ret, MErr> { match self.cell(addr)? { $pat => Ok($val), _ => Err(MErr(4)) } }
    };
}

impl GarnishData for ModelData {
    type Error = MErr;
    type Symbol = u64;
    type Byte = u8;
    type Char = char;
    type Number = SimpleNumber;
    type Size = usize;
    type SizeIterator = ArrIter<usize>;
    type NumberIterator = ArrIter<SimpleNumber>;
    type InstructionIterator = ArrIter<usize>;
    type DataIndexIterator = ArrIter<usize>;
    type ValueIndexIterator = ArrIter<usize>;
    type RegisterIndexIterator = ArrIter<usize>;
    type JumpTableIndexIterator = ArrIter<usize>;
    type JumpPathIndexIterator = ArrIter<usize>;
    type ListIndexIterator = ArrIter<SimpleNumber>;
    type ListItemIterator = ArrIter<usize>;
    type ConcatenationItemIterator = ArrIter<usize>;
    type CharIterator = ArrIter<char>;
    type ByteIterator = ArrIter<u8>;
    type SymbolListPartIterator = PartIter;
    type DataFactory = MFactory;

    fn get_data_len(&self) -> usize { self.ncells }
    fn get_data_iter(&self) -> ArrIter<usize> { MFactory::make_size_iterator_range(0, 0) }

    fn push_value_stack(&mut self, addr: usize) -> Result<(), MErr> {
        if self.nvalues >= NSTACK { return Err(MErr(5)); }
        self.values[self.nvalues] = addr; self.nvalues += 1; Ok(())
    }
    fn pop_value_stack(&mut self) -> Option<usize> { if self.nvalues == 0 { None } else { self.nvalues -= 1; Some(self.values[self.nvalues]) } }
    fn get_current_value(&self) -> Option<usize> { if self.nvalues == 0 { None } else { Some(self.values[self.nvalues - 1]) } }
    fn get_current_value_mut(&mut self) -> Option<&mut usize> { if self.nvalues == 0 { None } else { Some(&mut self.values[self.nvalues - 1]) } }

    fn get_data_type(&self, addr: usize) -> Result<GarnishDataType, MErr> { Ok(self.cell(addr)?.ty()) }
    reader!(get_number, SimpleNumber, MCell::Number(n) => n);
    reader!(get_type, GarnishDataType, MCell::Type(t) => t);
    reader!(get_char, char, MCell::Char(c) => c);
    reader!(get_byte, u8, MCell::Byte(b) => b);
    reader!(get_symbol, u64, MCell::Symbol(s) => s);
    reader!(get_expression, usize, MCell::Expression(e) => e);
    reader!(get_external, usize, MCell::External(e) => e);
    reader!(get_pair, (usize, usize), MCell::Pair(a, b) => (a, b));
    reader!(get_concatenation, (usize, usize), MCell::Concatenation(a, b) => (a, b));
    reader!(get_range, (usize, usize), MCell::Range(a, b) => (a, b));
    reader!(get_slice, (usize, usize), MCell::Slice(a, b) => (a, b));
    reader!(get_partial, (usize, usize), MCell::Partial(a, b) => (a, b));
    reader!(get_list_len, usize, MCell::List(_, n) => n);
    reader!(get_char_list_len, usize, MCell::CharList(_, n) => n);
    reader!(get_byte_list_len, usize, MCell::ByteList(_, n) => n);
    reader!(get_symbol_list_len, usize, MCell::SymbolList(_, n) => n);

    fn get_list_item(&self, list_addr: usize, item_addr: SimpleNumber) -> Result<Option<usize>, MErr> {
        match self.cell(list_addr)? { MCell::List(items, n) => { let k: usize = item_addr.into(); Ok(if neg(item_addr) || k >= n { None } else { Some(items[k]) }) } _ => Err(MErr(4)) }
    }
    fn get_list_item_with_symbol(&self, list_addr: usize, sym: u64) -> Result<Option<usize>, MErr> {
        match self.cell(list_addr)? {
            MCell::List(items, n) => {
                let mut i = 0;
                while i < n && i < NSEQ {
                    if let Ok(MCell::Pair(l, r)) = self.cell(items[i]) { if let Ok(MCell::Symbol(s)) = self.cell(l) { if s == sym { return Ok(Some(r)); } } }
                    i += 1;
                }
                Ok(None)
            }
            _ => Err(MErr(4)),
        }
    }
    fn get_char_list_item(&self, addr: usize, item_index: SimpleNumber) -> Result<Option<char>, MErr> {
        match self.cell(addr)? { MCell::CharList(cs, n) => { let k: usize = item_index.into(); Ok(if neg(item_index) || k >= n { None } else { Some(cs[k]) }) } _ => Err(MErr(4)) }
    }
    fn get_byte_list_item(&self, addr: usize, item_index: SimpleNumber) -> Result<Option<u8>, MErr> {
        match self.cell(addr)? { MCell::ByteList(bs, n) => { let k: usize = item_index.into(); Ok(if neg(item_index) || k >= n { None } else { Some(bs[k]) }) } _ => Err(MErr(4)) }
    }
    fn get_symbol_list_item(&self, addr: usize, item_index: SimpleNumber) -> Result<Option<SymbolListPart<u64, SimpleNumber>>, MErr> {
        match self.cell(addr)? { MCell::SymbolList(ss, n) => { let k: usize = item_index.into(); Ok(if neg(item_index) || k >= n { None } else { Some(SymbolListPart::Symbol(ss[k])) }) } _ => Err(MErr(4)) }
    }
    fn get_char_list_iter(&self, list_addr: usize, extents: Extents<SimpleNumber>) -> Result<ArrIter<char>, MErr> {
        match self.cell(list_addr)? { MCell::CharList(cs, n) => { let (lo, hi) = Self::window(n, &extents); Ok(arr_iter(&cs, n, ' ', lo, hi)) } _ => Err(MErr(4)) }
    }
    fn get_byte_list_iter(&self, list_addr: usize, extents: Extents<SimpleNumber>) -> Result<ArrIter<u8>, MErr> {
        match self.cell(list_addr)? { MCell::ByteList(bs, n) => { let (lo, hi) = Self::window(n, &extents); Ok(arr_iter(&bs, n, 0, lo, hi)) } _ => Err(MErr(4)) }
    }
    fn get_symbol_list_iter(&self, list_addr: usize, extents: Extents<SimpleNumber>) -> Result<PartIter, MErr> {
        match self.cell(list_addr)? { MCell::SymbolList(ss, n) => { let (lo, hi) = Self::window(n, &extents); Ok(PartIter { inner: arr_iter(&ss, n, 0, lo, hi) }) } _ => Err(MErr(4)) }
    }
    fn get_list_item_iter(&self, list_addr: usize, extents: Extents<SimpleNumber>) -> Result<ArrIter<usize>, MErr> {
        match self.cell(list_addr)? { MCell::List(items, n) => { let (lo, hi) = Self::window(n, &extents); Ok(arr_iter(&items, n, 0, lo, hi)) } _ => Err(MErr(4)) }
    }
    fn get_concatenation_iter(&self, addr: usize, extents: Extents<SimpleNumber>) -> Result<ArrIter<usize>, MErr> {
        match self.cell(addr)? {
            MCell::Concatenation(..) => {
                let mut out = [0usize; 2 * NSEQ]; let mut n = 0;
                self.flat(addr, &mut out, &mut n, 2);
                let (lo, hi) = Self::window(n, &extents);
                Ok(arr_iter(&out, n, 0, lo, hi))
            }
            _ => Err(MErr(4)),
        }
    }

    fn add_unit(&mut self) -> Result<usize, MErr> { self.add(MCell::Unit) }
    fn add_true(&mut self) -> Result<usize, MErr> { self.add(MCell::True) }
    fn add_false(&mut self) -> Result<usize, MErr> { self.add(MCell::False) }
    fn add_number(&mut self, value: SimpleNumber) -> Result<usize, MErr> { self.add(MCell::Number(value)) }
    fn add_type(&mut self, value: GarnishDataType) -> Result<usize, MErr> { self.add(MCell::Type(value)) }
    fn add_char(&mut self, value: char) -> Result<usize, MErr> { self.add(MCell::Char(value)) }
    fn add_byte(&mut self, value: u8) -> Result<usize, MErr> { self.add(MCell::Byte(value)) }
    fn add_symbol(&mut self, value: u64) -> Result<usize, MErr> { self.add(MCell::Symbol(value)) }
    fn add_expression(&mut self, value: usize) -> Result<usize, MErr> { self.add(MCell::Expression(value)) }
    fn add_external(&mut self, value: usize) -> Result<usize, MErr> { self.add(MCell::External(value)) }
    fn add_pair(&mut self, value: (usize, usize)) -> Result<usize, MErr> { self.add(MCell::Pair(value.0, value.1)) }
    fn add_concatenation(&mut self, left: usize, right: usize) -> Result<usize, MErr> { self.add(MCell::Concatenation(left, right)) }
    fn add_range(&mut self, start: usize, end: usize) -> Result<usize, MErr> { self.add(MCell::Range(start, end)) }
    fn add_slice(&mut self, list: usize, range: usize) -> Result<usize, MErr> { self.add(MCell::Slice(list, range)) }
    fn add_partial(&mut self, reciever: usize, input: usize) -> Result<usize, MErr> { self.add(MCell::Partial(reciever, input)) }
    fn merge_to_symbol_list(&mut self, _first: usize, _second: usize) -> Result<usize, MErr> { self.add(MCell::SymbolList([0; NSEQ], 0)) }

    fn start_list(&mut self, len: usize) -> Result<usize, MErr> {
        if len > NSEQ || self.building.is_some() { return Err(MErr(6)); }
        self.building = Some((len, [0; NSEQ], 0)); Ok(NCELLS)
    }
    fn add_to_list(&mut self, list_index: usize, item_index: usize) -> Result<usize, MErr> {
        match self.building { Some((cap, mut items, n)) if n < cap && list_index == NCELLS => { items[n] = item_index; self.building = Some((cap, items, n + 1)); Ok(list_index) } _ => Err(MErr(6)) }
    }
    fn end_list(&mut self, list_index: usize) -> Result<usize, MErr> {
        match self.building { Some((cap, items, n)) if n == cap && list_index == NCELLS => { self.building = None; self.add(MCell::List(items, n)) } _ => Err(MErr(6)) }
    }

    fn get_register_len(&self) -> usize { self.nregs }
    fn push_register(&mut self, addr: usize) -> Result<(), MErr> {
        if self.nregs >= NREGS { return Err(MErr(7)); }
        self.regs[self.nregs] = addr; self.nregs += 1; Ok(())
    }
    fn get_register(&self, addr: usize) -> Option<usize> { if addr < self.nregs { Some(self.regs[addr]) } else { None } }
    fn pop_register(&mut self) -> Result<Option<usize>, MErr> { if self.nregs == 0 { Ok(None) } else { self.nregs -= 1; Ok(Some(self.regs[self.nregs])) } }

    fn get_instruction_len(&self) -> usize { self.instr_len }
    fn push_instruction(&mut self, _instruction: Instruction, _data: Option<usize>) -> Result<usize, MErr> { Err(MErr(8)) }
    fn get_instruction(&self, addr: usize) -> Option<(Instruction, Option<usize>)> { if addr < self.ninstr { Some((self.instrs[addr], None)) } else { None } }
    fn get_instruction_iter(&self) -> ArrIter<usize> { MFactory::make_size_iterator_range(0, 0) }
    fn get_instruction_cursor(&self) -> usize { self.cursor }
    fn set_instruction_cursor(&mut self, addr: usize) -> Result<(), MErr> { self.cursor = addr; Ok(()) }
    fn get_jump_table_len(&self) -> usize { self.njumps }
    fn push_to_jump_table(&mut self, index: usize) -> Result<(), MErr> { if self.njumps >= NSTACK { return Err(MErr(8)); } self.jumps[self.njumps] = index; self.njumps += 1; Ok(()) }
    fn get_from_jump_table(&self, index: usize) -> Option<usize> { if index < self.njumps { Some(self.jumps[index]) } else { None } }
    fn get_from_jump_table_mut(&mut self, index: usize) -> Option<&mut usize> { if index < self.njumps { Some(&mut self.jumps[index]) } else { None } }

    fn push_frame(&mut self, index: usize) -> Result<(), MErr> {
        if self.nframes >= NSTACK { return Err(MErr(5)); }
        self.frames[self.nframes] = (index, self.nregs); self.nframes += 1; Ok(())
    }
    fn pop_frame(&mut self) -> Result<Option<usize>, MErr> {
        if self.nframes == 0 { Ok(None) } else { self.nframes -= 1; let (r, d) = self.frames[self.nframes]; if d <= self.nregs { self.nregs = d; } Ok(Some(r)) }
    }

    fn add_char_list_from(&mut self, _from: usize) -> Result<usize, MErr> { self.add(MCell::CharList([' '; NSEQ], 0)) }
    fn add_byte_list_from(&mut self, _from: usize) -> Result<usize, MErr> { self.add(MCell::ByteList([0; NSEQ], 0)) }
    fn add_symbol_from(&mut self, _from: usize) -> Result<usize, MErr> { self.add(MCell::Symbol(0)) }
    fn add_number_from(&mut self, _from: usize) -> Result<usize, MErr> { self.add(MCell::Unit) }
    fn parse_add_char_list(&mut self, _from: &str) -> Result<usize, MErr> { Err(MErr(9)) }
    fn parse_add_byte_list(&mut self, _from: &str) -> Result<usize, MErr> { Err(MErr(9)) }

    fn resolve(&mut self, symbol: u64) -> Result<bool, MErr> { self.log(HostCall::Resolve(symbol)) }
    fn apply(&mut self, external_value: usize, input_addr: usize) -> Result<bool, MErr> { self.log(HostCall::Apply(external_value, input_addr)) }
    fn defer_op(&mut self, operation: Instruction, left: (GarnishDataType, usize), right: (GarnishDataType, usize)) -> Result<bool, MErr> { self.log(HostCall::Defer(operation, left, right)) }
}

fn neg(n: SimpleNumber) -> bool { match n { SimpleNumber::Integer(i) => i < 0, SimpleNumber::Float(f) => f < 0.0 } }
