//! Refuter harness bodies: the REAL runtime functions (garnish_lang_runtime::ops::*) run over ModelData on a bounded
//! family of states, checked against property-level post-conditions written from the property statements.
//! Each body is generic over a value source: under Kani it is kani::any() (all values of the bounded family), in the
//! replay binary it is the concrete values Kani printed - so a counterexample is re-run on the real code natively.
use crate::model::*;
use crate::Src;
use garnish_lang_runtime::ops;
use garnish_lang_simple_data::SimpleNumber;
use garnish_lang_traits::{GarnishData, GarnishDataType, Instruction};

/// numbers: all 32-bit integers (floats and mixed pairs are unit K1's business: they only reach the runtime through
/// SimpleNumber's own == and partial_cmp)
fn any_number<S: Src>(s: &mut S) -> SimpleNumber { SimpleNumber::Integer(s.i32()) }
/// characters from a three-letter alphabet (the runtime only ever compares them)
fn any_char<S: Src>(s: &mut S) -> char { match s.below(3) { 0 => 'a', 1 => 'b', _ => 'c' } }

/// a primitive cell of symbolic kind (k in 0..10) with symbolic payload
fn any_primitive<S: Src>(s: &mut S, k: usize) -> MCell {
    match k {
        0 => MCell::Unit, 1 => MCell::True, 2 => MCell::False,
        3 => MCell::Type(if s.bool() { GarnishDataType::Number } else { GarnishDataType::Char }),
        4 => MCell::Number(any_number(s)), 5 => MCell::Char(any_char(s)), 6 => MCell::Byte(s.u8()),
        7 => MCell::Symbol(s.u64()), 8 => MCell::Expression(s.below(4)), _ => MCell::External(s.below(4)),
    }
}

/// structural equality of two primitive cells, from the property statement
fn prim_eq(a: MCell, b: MCell) -> bool {
    match (a, b) {
        (MCell::Unit, MCell::Unit) | (MCell::True, MCell::True) | (MCell::False, MCell::False) => true,
        (MCell::Type(x), MCell::Type(y)) => x == y,
        (MCell::Number(x), MCell::Number(y)) => x == y,
        (MCell::Char(x), MCell::Char(y)) => x == y,
        (MCell::Byte(x), MCell::Byte(y)) => x == y,
        (MCell::Symbol(x), MCell::Symbol(y)) => x == y,
        (MCell::Expression(x), MCell::Expression(y)) => x == y,
        (MCell::External(x), MCell::External(y)) => x == y,
        _ => false,
    }
}

/// element-wise equality of two bounded sequences (no memcmp)
fn seq_same<T: PartialEq + Copy>(a: &[T; NSEQ], na: usize, b: &[T; NSEQ], nb: usize) -> bool {
    na == nb && (na < 1 || a[0] == b[0]) && (na < 2 || a[1] == b[1]) && (na < 3 || a[2] == b[2])
}

fn truthy_top(d: &ModelData) -> Option<bool> { match d.top() { Some(MCell::True) => Some(true), Some(MCell::False) => Some(false), _ => None } }

/// a data object holding `junk` on the operand stack, then the two operands
fn two_operands(l: MCell, r: MCell, junk: usize) -> (ModelData, usize, usize) {
    let mut d = ModelData::new();
    let j = d.add(MCell::Number(SimpleNumber::Integer(7))).unwrap();
    let la = d.add(l).unwrap();
    let ra = d.add(r).unwrap();
    let mut i = 0; while i < junk { d.push_register(j).unwrap(); i += 1; }
    d.push_register(la).unwrap();
    d.push_register(ra).unwrap();
    (d, la, ra)
}

/// runs `==` and `!=` on (l, r) and on (r, l); checks verdict, negation, symmetry, operand-stack clean-up
fn check_equality<S: Src>(s: &mut S, d0: ModelData, la: usize, ra: usize, expected: bool) {
    let depth = d0.nregs;
    let mut d = d0;
    let r = ops::equal(&mut d);
    s.check(r.is_ok(), "equal_is_ok");
    s.check(d.nregs == depth - 1, "one_result_nothing_left_behind");
    s.check(truthy_top(&d) == Some(expected), "equal_is_structural");
    let mut i = 0; while i + 2 < depth { s.check(d.regs[i] == d0.regs[i], "operands_below_untouched"); i += 1; }
    let mut n = d0;
    let r = ops::not_equal(&mut n);
    s.check(r.is_ok() && n.nregs == depth - 1, "one_result_nothing_left_behind");
    s.check(truthy_top(&n) == Some(!expected), "not_equal_is_negation");
    let _ = (la, ra);
}

/// the same verdict with the operands swapped
fn check_symmetry<S: Src>(s: &mut S, d0: ModelData, la: usize, ra: usize, expected: bool) {
    let depth = d0.nregs;
    let mut w = d0;
    w.regs[depth - 2] = ra; w.regs[depth - 1] = la;
    let r = ops::equal(&mut w);
    s.check(r.is_ok() && w.nregs == depth - 1 && truthy_top(&w) == Some(expected), "equal_is_symmetric");
}

// ---------------------------------------------------------------- C11
fn any_chars<S: Src>(s: &mut S) -> ([char; NSEQ], usize) { let n = s.below(NSEQ + 1); ([any_char(s), any_char(s), any_char(s)], n) }
fn any_bytes<S: Src>(s: &mut S) -> ([u8; NSEQ], usize) { let n = s.below(NSEQ + 1); ([s.u8(), s.u8(), s.u8()], n) }

/// text: element-wise; a single character equals the one-element list of it
pub fn eq_text<S: Src>(s: &mut S) {
    let (ca, na) = any_chars(s);
    let (cb, nb) = any_chars(s);
    let (d, la, ra) = two_operands(MCell::CharList(ca, na), MCell::CharList(cb, nb), 1);
    check_equality(s, d, la, ra, seq_same(&ca, na, &cb, nb));
}

/// text, operands swapped; and a single character against the one-element list of it, both ways round
pub fn eq_text_symmetric<S: Src>(s: &mut S) {
    let (ca, na) = any_chars(s);
    let (cb, nb) = any_chars(s);
    if s.bool() {
        let (d, la, ra) = two_operands(MCell::CharList(ca, na), MCell::CharList(cb, nb), 1);
        check_symmetry(s, d, la, ra, seq_same(&ca, na, &cb, nb));
    } else {
        let c = any_char(s);
        let (d, la, ra) = two_operands(MCell::Char(c), MCell::CharList(cb, nb), 1);
        let e = nb == 1 && cb[0] == c;
        let mut x = d; let r = ops::equal(&mut x);
        s.check(r.is_ok() && truthy_top(&x) == Some(e), "equal_is_structural");
        check_symmetry(s, d, la, ra, e);
    }
}

pub fn eq_bytes<S: Src>(s: &mut S) {
    let (ca, na) = any_bytes(s);
    let (cb, nb) = any_bytes(s);
    let single = s.bool();
    if single {
        let c = s.u8();
        let (d, la, ra) = two_operands(MCell::Byte(c), MCell::ByteList(cb, nb), 1);
        check_equality(s, d, la, ra, nb == 1 && cb[0] == c);
    } else {
        let (d, la, ra) = two_operands(MCell::ByteList(ca, na), MCell::ByteList(cb, nb), 1);
        check_equality(s, d, la, ra, seq_same(&ca, na, &cb, nb));
    }
}

/// pairs component-wise, lists and concatenations as the flat sequences of their items (items: small integers,
/// so that equal values also occur at different addresses)
pub fn eq_concatenations<S: Src>(s: &mut S) { eq_structures(s, 3) }
fn eq_structures<S: Src>(s: &mut S, shape: usize) {
    let mut d = ModelData::new();
    let mut v = [0i32; 4];
    let mut addr = [0usize; 4];
    let mut i = 0;
    while i < 4 { v[i] = s.below(2) as i32; addr[i] = d.add(MCell::Number(SimpleNumber::Integer(v[i]))).unwrap(); i += 1; }
    let (l, r, expected) = match shape {
        0 => (MCell::Pair(addr[0], addr[1]), MCell::Pair(addr[2], addr[3]), v[0] == v[2] && v[1] == v[3]),
        1 => { let (n1, n2) = (s.below(3), s.below(3));
               (MCell::List([addr[0], addr[1], 0], n1), MCell::List([addr[2], addr[3], 0], n2), n1 == n2 && (n1 < 1 || v[0] == v[2]) && (n1 < 2 || v[1] == v[3])) }
        2 => { let n1 = s.below(3);
               (MCell::List([addr[0], addr[1], 0], n1), MCell::Concatenation(addr[2], addr[3]), n1 == 2 && v[0] == v[2] && v[1] == v[3]) }
        _ => (MCell::Concatenation(addr[0], addr[1]), MCell::Concatenation(addr[2], addr[3]), v[0] == v[2] && v[1] == v[3]),
    };
    let j = addr[0];
    let la = d.add(l).unwrap();
    let ra = d.add(r).unwrap();
    d.push_register(j).unwrap();
    d.push_register(la).unwrap();
    d.push_register(ra).unwrap();
    check_equality(s, d, la, ra, expected);
}

// ---------------------------------------------------------------- C12
fn check_order<S: Src>(s: &mut S, d0: ModelData, expected: Option<std::cmp::Ordering>, unit_expected: bool) {
    use std::cmp::Ordering::*;
    let depth = d0.nregs;
    let want = |f: fn(std::cmp::Ordering) -> bool| -> Option<bool> { if unit_expected { None } else { Some(match expected { Some(o) => f(o), None => false }) } };
    let ops4: [(fn(&mut ModelData) -> Result<Option<usize>, garnish_lang_traits::RuntimeError<MErr>>, fn(std::cmp::Ordering) -> bool, &'static str); 4] = [
        (ops::less_than, |o| o == Less, "less_than_is_natural_order"), (ops::less_than_or_equal, |o| o != Greater, "less_or_equal_is_natural_order"),
        (ops::greater_than, |o| o == Greater, "greater_than_is_natural_order"), (ops::greater_than_or_equal, |o| o != Less, "greater_or_equal_is_natural_order")];
    let mut k = 0;
    while k < 4 {
        let mut d = d0;
        let r = (ops4[k].0)(&mut d);
        s.check(r.is_ok() && d.nregs == depth - 1, "one_result");
        if unit_expected { s.check(matches!(d.top(), Some(MCell::Unit)), "not_a_number_gives_unit"); }
        else { s.check(truthy_top(&d) == want(ops4[k].1), ops4[k].2); }
        k += 1;
    }
}

/// lexicographic order of two bounded sequences, the shorter prefix first
fn lex<T: Ord + Copy>(a: &[T; NSEQ], na: usize, b: &[T; NSEQ], nb: usize) -> std::cmp::Ordering {
    let mut i = 0;
    while i < NSEQ {
        if i >= na || i >= nb { break; }
        let o = a[i].cmp(&b[i]);
        if o != std::cmp::Ordering::Equal { return o; }
        i += 1;
    }
    na.cmp(&nb)
}

/// two char lists / two byte lists: lexicographic, the shorter prefix first
pub fn cmp_text<S: Src>(s: &mut S) {
    if s.bool() {
        let (ca, na) = any_chars(s); let (cb, nb) = any_chars(s);
        let (d, _, _) = two_operands(MCell::CharList(ca, na), MCell::CharList(cb, nb), 1);
        check_order(s, d, Some(lex(&ca, na, &cb, nb)), false);
    } else {
        let (ca, na) = any_bytes(s); let (cb, nb) = any_bytes(s);
        let (d, _, _) = two_operands(MCell::ByteList(ca, na), MCell::ByteList(cb, nb), 1);
        check_order(s, d, Some(lex(&ca, na, &cb, nb)), false);
    }
}

// ---------------------------------------------------------------- C10
/// every construct that tests a value classifies every value the same way: false exactly for unit and `$!`
/// a cell of any of the 19 value kinds (compound kinds refer to the number at `n`)
fn any_cell_kind<S: Src>(s: &mut S, k: usize, n: usize) -> MCell {
    match k {
        0..=9 => any_primitive(s, k),
        10 => MCell::Pair(n, n), 11 => MCell::Range(n, n), 12 => MCell::Slice(n, n), 13 => MCell::Partial(n, n), 14 => MCell::Concatenation(n, n),
        15 => MCell::List([n, n, n], s.below(NSEQ + 1)), 16 => MCell::CharList(['a'; NSEQ], s.below(NSEQ + 1)),
        17 => MCell::ByteList([0; NSEQ], s.below(NSEQ + 1)), _ => MCell::SymbolList([1; NSEQ], s.below(NSEQ + 1)),
    }
}

/// `^^` classifies its two operands with the same notion of truth as every other testing construct: for every pair of value
/// kinds the result is the boolean "exactly one of the two is true", one result replaces the two operands
pub fn xor_classifies<S: Src>(s: &mut S) {
    let (ka, kb) = (s.below(19), s.below(19));
    let mut d = ModelData::new();
    let n = d.add(MCell::Number(SimpleNumber::Integer(1))).unwrap();
    let (ca, cb) = (any_cell_kind(s, ka, n), any_cell_kind(s, kb, n));
    let (ta, tb) = (!matches!(ca, MCell::Unit | MCell::False), !matches!(cb, MCell::Unit | MCell::False));
    let a = d.add(ca).unwrap();
    let b = d.add(cb).unwrap();
    d.push_register(n).unwrap();
    d.push_register(a).unwrap();
    d.push_register(b).unwrap();
    let depth = d.nregs;
    let r = ops::xor(&mut d);
    s.check(r.is_ok() && d.nregs == depth - 1, "xor_leaves_one_result");
    s.check(truthy_top(&d) == Some(ta != tb), "xor_is_true_iff_exactly_one_operand_is_true");
}

pub fn truthiness<S: Src>(s: &mut S) {
    let k = s.below(19);
    let mut d = ModelData::new();
    let n = d.add(MCell::Number(SimpleNumber::Integer(1))).unwrap();
    let cell = any_cell_kind(s, k, n);
    let expect = !matches!(cell, MCell::Unit | MCell::False);
    let a = d.add(cell).unwrap();
    d.push_to_jump_table(40).unwrap();
    d.push_register(n).unwrap();
    d.push_register(a).unwrap();
    let depth = d.nregs;
    let mut x = d; let r = ops::jump_if_true(&mut x, 0);
    s.check(matches!(r, Ok(t) if t == if expect { Some(40) } else { None }) && x.nregs == depth - 1, "jump_if_true_iff_truthy");
    let mut x = d; let r = ops::jump_if_false(&mut x, 0);
    s.check(matches!(r, Ok(t) if t == if expect { None } else { Some(40) }) && x.nregs == depth - 1, "jump_if_false_iff_falsy");
    let mut x = d; let r = ops::and(&mut x, 0);
    s.check(matches!(r, Ok(t) if t == if expect { Some(40) } else { None }), "and_evaluates_right_only_when_left_true");
    s.check(if expect { x.nregs == depth - 1 } else { x.nregs == depth && truthy_top(&x) == Some(false) }, "and_false_is_boolean_false");
    let mut x = d; let r = ops::or(&mut x, 0);
    s.check(matches!(r, Ok(t) if t == if expect { None } else { Some(40) }), "or_evaluates_right_only_when_left_false");
    s.check(if expect { x.nregs == depth && truthy_top(&x) == Some(true) } else { x.nregs == depth - 1 }, "or_true_is_boolean_true");
    let mut x = d; let r = ops::not(&mut x);
    s.check(r.is_ok() && x.nregs == depth && truthy_top(&x) == Some(!expect), "not_is_boolean_negation");
    let mut x = d; let r = ops::tis(&mut x);
    s.check(r.is_ok() && x.nregs == depth && truthy_top(&x) == Some(expect), "tis_is_boolean");
    let mut x = d; x.push_register(a).unwrap(); let r = ops::xor(&mut x);
    s.check(r.is_ok() && x.nregs == depth && truthy_top(&x) == Some(false), "xor_same_value_is_false");
}

// ---------------------------------------------------------------- C06
/// the end of an expression hands its one result back to exactly the call that entered it: with `k` calls active it pops ONE frame
/// and ONE input value, drops the operands the expression left behind down to that call's depth, leaves its result as the single
/// new operand and continues at that call's return point - whatever instruction stands there; with no call active it keeps the
/// input-value depth, stores the result as the current input value and stops at the end of the instructions
pub fn end_expression_returns_to_caller<S: Src>(s: &mut S) {
    let mut d = ModelData::new();
    let a = d.add(MCell::Number(SimpleNumber::Integer(1))).unwrap();
    let res = d.add(MCell::Number(SimpleNumber::Integer(2))).unwrap();
    // what stands at the four instruction addresses the calls may return to
    d.ninstr = NINSTR; d.instr_len = NINSTR;
    let mut i = 0; while i < NINSTR { d.instrs[i] = match s.below(4) { 0 => Instruction::EndExpression, 1 => Instruction::Add, 2 => Instruction::JumpTo, _ => Instruction::EndSideEffect }; i += 1; }
    let k = s.below(NSTACK);                       // active calls: 0..3
    d.push_value_stack(a).unwrap();                // the program's own input value
    let mut rets = [0usize; NSTACK];
    let mut depths = [0usize; NSTACK];
    let mut i = 0; while i < k {
        if s.bool() { d.push_register(a).unwrap(); } // operands pending in the caller
        rets[i] = s.below(NINSTR); depths[i] = d.nregs;
        d.push_frame(rets[i]).unwrap(); d.push_value_stack(a).unwrap();
        i += 1;
    }
    if s.bool() { d.push_register(a).unwrap(); }   // something the ending expression left below its result
    d.push_register(res).unwrap();
    let (nf, nv) = (d.nframes, d.nvalues);
    let r = ops::end_expression(&mut d);
    if k == 0 {
        s.check(matches!(r, Ok(Some(t)) if t == NINSTR) && d.nframes == 0 && d.nvalues == nv && d.values[nv - 1] == res, "last_expression_stores_result_and_stops");
    } else {
        s.check(matches!(r, Ok(Some(t)) if t == rets[k - 1]), "returns_to_the_innermost_call");
        s.check(d.nframes == nf - 1 && d.nvalues == nv - 1, "pops_one_frame_and_one_input_value");
        s.check(d.nregs == depths[k - 1] + 1 && d.regs[d.nregs - 1] == res, "result_is_the_one_new_operand_of_the_caller");
    }
}

// ---------------------------------------------------------------- C08
/// an arithmetic / bitwise instruction on operands that are not both numbers: offered to the host exactly once, in
/// source order; declined => unit; accepted => the host's result; exactly one result either way
pub fn defer_protocol<S: Src>(s: &mut S) {
    let (ka, kb) = (s.below(10), s.below(10));
    s.assume(!(ka == 4 && kb == 4));
    let (a, b) = (any_primitive(s, ka), any_primitive(s, kb));
    let (mut d, la, ra) = two_operands(a, b, 1);
    d.host_accepts = s.bool();
    d.host_result = 0;
    let depth = d.nregs;
    let which = s.below(4);
    let (r, ins) = match which {
        0 => (ops::add(&mut d), Instruction::Add), 1 => (ops::multiply(&mut d), Instruction::Multiply),
        2 => (ops::bitwise_and(&mut d), Instruction::BitwiseAnd), _ => (ops::remainder(&mut d), Instruction::Remainder) };
    s.check(r.is_ok(), "does_not_fail");
    s.check(d.nhost == 1, "host_called_exactly_once");
    s.check(matches!(d.host[0], Some((HostCall::Defer(i, (lt, l), (rt, rr)), _)) if i == ins && l == la && rr == ra && lt == a.ty() && rt == b.ty()), "operands_in_source_order");
    s.check(d.nregs == depth - 1, "exactly_one_result");
    if d.host_accepts { s.check(d.regs[d.nregs - 1] == 0, "accepted_result_used_unchanged"); } else { s.check(matches!(d.top(), Some(MCell::Unit)), "declined_is_unit"); }
}

// ---------------------------------------------------------------- C16
/// a list of up to three items: index k yields item k, "no item" (unit) outside 0..n-1, a key yields the value of
/// the pair keyed by it or unit - never an error
pub fn access_list<S: Src>(s: &mut S) {
    let mut d = ModelData::new();
    let n1 = d.add(MCell::Number(SimpleNumber::Integer(11))).unwrap();
    let key = s.u64();
    let ka = d.add(MCell::Symbol(key)).unwrap();
    let pa = d.add(MCell::Pair(ka, n1)).unwrap();
    let items = [if s.bool() { pa } else { n1 }, if s.bool() { pa } else { n1 }, n1];
    let n = s.below(NSEQ + 1);
    let la = d.add(MCell::List(items, n)).unwrap();
    d.push_register(la).unwrap();
    if s.bool() {
        let k = s.i32(); s.assume(k >= -2 && k <= 4);
        let ia = d.add(MCell::Number(SimpleNumber::Integer(k))).unwrap();
        d.push_register(ia).unwrap();
        let r = ops::access(&mut d);
        s.check(r.is_ok() && d.nregs == 1, "never_an_error_one_result");
        if k >= 0 && (k as usize) < n { s.check(d.regs[0] == items[k as usize], "index_k_yields_item_k"); } else { s.check(matches!(d.top(), Some(MCell::Unit)), "outside_is_no_item"); }
    } else {
        let q = s.u64();
        let qa = d.add(MCell::Symbol(q)).unwrap();
        d.push_register(qa).unwrap();
        let r = ops::access(&mut d);
        s.check(r.is_ok() && d.nregs == 1, "never_an_error_one_result");
        let present = (n > 0 && items[0] == pa && q == key) || (n > 1 && items[1] == pa && q == key);
        if present { s.check(d.regs[0] == n1, "finds_every_key"); } else { s.check(matches!(d.top(), Some(MCell::Unit)), "absent_is_unit"); }
    }
}

/// a concatenation of a list that has a nested list among its items with a list holding a keyed pair, one fixed shape
/// `(a, (a, b), b) <> (b, k = a)`: the flat sequence has five items (the nested list is ONE item)
fn concat_nested(d: &mut ModelData, key: u64) -> (usize, [usize; 5], usize) {
    let n1 = d.add(MCell::Number(SimpleNumber::Integer(11))).unwrap();
    let n2 = d.add(MCell::Number(SimpleNumber::Integer(22))).unwrap();
    let inner = d.add(MCell::List([n1, n2, n2], 2)).unwrap();
    let l1 = d.add(MCell::List([n1, inner, n2], 3)).unwrap();
    let ka = d.add(MCell::Symbol(key)).unwrap();
    let pa = d.add(MCell::Pair(ka, n1)).unwrap();
    let right = d.add(MCell::List([n2, pa, n2], 2)).unwrap();
    let c = d.add(MCell::Concatenation(l1, right)).unwrap();
    (c, [n1, inner, n2, n2, pa], n1)
}

/// index k yields the k-th item of the flat sequence, "no item" outside - never an error, one result
pub fn access_concat_index<S: Src>(s: &mut S) {
    let mut d = ModelData::new();
    let (c, flat, _) = concat_nested(&mut d, 7);
    d.push_register(c).unwrap();
    let k = s.i32(); s.assume(k >= -1 && k <= 6);
    let ia = d.add(MCell::Number(SimpleNumber::Integer(k))).unwrap();
    d.push_register(ia).unwrap();
    let r = ops::access(&mut d);
    s.check(r.is_ok() && d.nregs == 1, "never_an_error_one_result");
    if k >= 0 && (k as usize) < 5 { s.check(d.regs[0] == flat[k as usize], "index_k_yields_flat_item_k"); } else { s.check(matches!(d.top(), Some(MCell::Unit)), "outside_is_no_item"); }
}
