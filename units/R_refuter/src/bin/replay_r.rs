//! replay_r <harness> <hex bytes of value 1> ...  : re-runs a refuter harness body natively on the concrete values Kani printed
use r_refuter::Src;
use std::panic::{catch_unwind, AssertUnwindSafe};

struct R { vals: Vec<Vec<u8>>, pos: usize, failed: Vec<&'static str>, pre_violated: bool }
impl R {
    fn next(&mut self, n: usize) -> Vec<u8> { let mut v = self.vals.get(self.pos).cloned().unwrap_or_default(); self.pos += 1; v.resize(n, 0); v }
}
impl Src for R {
    fn i32(&mut self) -> i32 { let v = self.next(4); i32::from_le_bytes([v[0], v[1], v[2], v[3]]) }
    fn f64(&mut self) -> f64 { let v = self.next(8); f64::from_le_bytes([v[0], v[1], v[2], v[3], v[4], v[5], v[6], v[7]]) }
    fn bool(&mut self) -> bool { self.next(1)[0] != 0 }
    fn u8(&mut self) -> u8 { self.next(1)[0] }
    fn u64(&mut self) -> u64 { let v = self.next(8); u64::from_le_bytes([v[0], v[1], v[2], v[3], v[4], v[5], v[6], v[7]]) }
    fn chr(&mut self) -> char { let v = self.next(4); char::from_u32(u32::from_le_bytes([v[0], v[1], v[2], v[3]])).unwrap_or('?') }
    fn below(&mut self, n: usize) -> usize { let v = self.next(1)[0] as usize; if v >= n { self.pre_violated = true; 0 } else { v } }
    fn assume(&mut self, c: bool) { if !c { self.pre_violated = true; } }
    fn check(&mut self, c: bool, what: &'static str) { if !c { self.failed.push(what); } }
}

fn main() {
    let args: Vec<String> = std::env::args().collect();
    let h = args.get(1).cloned().unwrap_or_default();
    let vals: Vec<Vec<u8>> = args[2..].iter().map(|s| (0..s.len() / 2).map(|i| u8::from_str_radix(&s[2 * i..2 * i + 2], 16).unwrap()).collect()).collect();
    let mut r = R { vals, pos: 0, failed: vec![], pre_violated: false };
    macro_rules! dispatch { ($($n:ident),*) => { match h.as_str() { $( stringify!($n) => r_refuter::bodies::$n(&mut r), )* _ => { println!("unknown harness {}", h); std::process::exit(2) } } } }
    let res = catch_unwind(AssertUnwindSafe(|| {
        dispatch!(eq_text, eq_text_symmetric, eq_bytes, eq_concatenations, cmp_text, truthiness, xor_classifies, end_expression_returns_to_caller, defer_protocol, access_list, access_concat_index);
    }));
    match res {
        Err(p) => {
            let msg = p.downcast_ref::<String>().cloned().or(p.downcast_ref::<&str>().map(|s| s.to_string())).unwrap_or_default();
            println!("REPLAY harness={} outcome=panic message={:?}", h, msg);
            std::process::exit(1)
        }
        Ok(()) => {
            if r.pre_violated { println!("REPLAY harness={} outcome=precondition-not-met", h); std::process::exit(3) }
            if r.failed.is_empty() { println!("REPLAY harness={} outcome=holds", h); } else {
                println!("REPLAY harness={} outcome=contract-violated clauses={:?}", h, r.failed);
                std::process::exit(1)
            }
        }
    }
}
