//! replay_k1 <harness> <hex bytes of value 1> <hex bytes of value 2> ...
//! Re-runs a harness body in plain Rust on the concrete values Kani printed, against the real crates.
use k1_numbers::Src;
use std::panic::{catch_unwind, AssertUnwindSafe};

struct R { vals: Vec<Vec<u8>>, pos: usize, failed: Vec<&'static str>, pre_violated: bool }
impl R {
    fn next(&mut self, n: usize) -> Vec<u8> {
        let mut v = self.vals.get(self.pos).cloned().unwrap_or_default();
        self.pos += 1;
        v.resize(n, 0);
        v
    }
}
impl Src for R {
    fn i32(&mut self) -> i32 { let v = self.next(4); i32::from_le_bytes([v[0], v[1], v[2], v[3]]) }
    fn f64(&mut self) -> f64 { let v = self.next(8); f64::from_le_bytes([v[0], v[1], v[2], v[3], v[4], v[5], v[6], v[7]]) }
    fn bool(&mut self) -> bool { self.next(1)[0] != 0 }
    fn assume(&mut self, c: bool) { if !c { self.pre_violated = true; } }
    fn check(&mut self, c: bool, what: &'static str) { if !c { self.failed.push(what); } }
}

fn main() {
    let args: Vec<String> = std::env::args().collect();
    let h = args.get(1).cloned().unwrap_or_default();
    let vals: Vec<Vec<u8>> = args[2..].iter().map(|s| (0..s.len() / 2).map(|i| u8::from_str_radix(&s[2 * i..2 * i + 2], 16).unwrap()).collect()).collect();
    let mut r = R { vals, pos: 0, failed: vec![], pre_violated: false };
    macro_rules! dispatch { ($($n:ident),*) => { match h.as_str() { $( stringify!($n) => k1_numbers::bodies::$n(&mut r), )* _ => { println!("unknown harness {}", h); std::process::exit(2) } } } }
    let res = catch_unwind(AssertUnwindSafe(|| {
        dispatch!(plus_int, subtract_int, multiply_int, divide_int, integer_divide_int, remainder_shape_int, remainder_exact_16bit,
            bitwise_and_int, bitwise_or_int, bitwise_xor_int, bitwise_shift_left_int, bitwise_shift_right_int, power_int, power_undefined_int,
            absolute_value_int, opposite_int, increment_int, decrement_int, bitwise_not_int,
            bitwise_float_is_none, mixed_promotes_to_float, plus_float, subtract_float, multiply_float, divide_float,
            integer_divide_float, unary_float, eq_reflexive_symmetric, eq_transitive, eq_agrees_with_cmp, eq_is_numeric,
            cmp_total_on_non_nan, cmp_antisymmetric, cmp_transitive, cmp_is_numeric, operators_are_readings_of_cmp, usize_from_no_panic,
            power_no_panic_int, power_small_exponent_int, zero_divisor_is_none, results_are_finite, integer_divide_float_out_of_range, integer_divide_float_quarters_16bit, integer_divide_float_quarters_8bit);
    }));
    match res {
        Err(p) => {
            let msg = p.downcast_ref::<String>().cloned().or(p.downcast_ref::<&str>().map(|s| s.to_string())).unwrap_or_default();
            println!("REPLAY harness={} outcome=panic message={:?}", h, msg);
            std::process::exit(1)
        }
        Ok(()) => {
            if r.pre_violated { println!("REPLAY harness={} outcome=precondition-not-met", h); std::process::exit(3) }
            if r.failed.is_empty() { println!("REPLAY harness={} outcome=holds", h); } else {
                println!("REPLAY harness={} outcome=contract-violated clauses={:?}", h, r.failed);
                std::process::exit(1)
            }
        }
    }
}
