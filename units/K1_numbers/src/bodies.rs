use crate::contracts::*;
use crate::Src;
use garnish_lang_simple_data::SimpleNumber;
use garnish_lang_simple_data::SimpleNumber::*;
use garnish_lang_traits::GarnishNumber;
use std::cmp::Ordering;

fn any_num<S: Src>(s: &mut S) -> SimpleNumber {
    if s.bool() { Integer(s.i32()) } else { Float(s.f64()) }
}
fn is_nan(n: SimpleNumber) -> bool { match n { Float(f) => f.is_nan(), _ => false } }
fn is_float(n: SimpleNumber) -> bool { matches!(n, Float(_)) }
fn finite(n: SimpleNumber) -> bool { match n { Float(f) => f.is_finite(), _ => true } }

macro_rules! int_binop {
    ($name:ident, $method:ident, $reference:ident) => {
        pub fn $name<S: Src>(s: &mut S) {
            let a = s.i32();
            let b = s.i32();
            let r = Integer(a).$method(Integer(b));
            s.check(same(r, $reference(a, b)), "exact_or_none");
        }
    };
}
macro_rules! int_unop {
    ($name:ident, $method:ident, $reference:ident) => {
        pub fn $name<S: Src>(s: &mut S) {
            let a = s.i32();
            let r = Integer(a).$method();
            s.check(same(r, $reference(a)), "exact_or_none");
        }
    };
}
int_binop!(plus_int, plus, ref_plus);
int_binop!(subtract_int, subtract, ref_subtract);
int_binop!(multiply_int, multiply, ref_multiply);
int_binop!(bitwise_and_int, bitwise_and, ref_bitwise_and);
int_binop!(bitwise_or_int, bitwise_or, ref_bitwise_or);
int_binop!(bitwise_xor_int, bitwise_xor, ref_bitwise_xor);
int_binop!(bitwise_shift_left_int, bitwise_shift_left, ref_shift_left);
int_binop!(bitwise_shift_right_int, bitwise_shift_right, ref_shift_right);
int_binop!(power_int, power, ref_power);
int_unop!(absolute_value_int, absolute_value, ref_absolute_value);
int_unop!(opposite_int, opposite, ref_opposite);
int_unop!(increment_int, increment, ref_increment);
int_unop!(decrement_int, decrement, ref_decrement);
int_unop!(bitwise_not_int, bitwise_not, ref_bitwise_not);

/// `**` on integers, the induction step over the exponent for every base and the exponents 2..=31 (the exponents below the bit
/// width: every result that fits comes from one of them unless the base is -1, 0 or 1): `a ** b` is `a ** (b - 1)` times `a` when
/// that fits and undefined otherwise. With the base cases of power_undefined_int (exponent 0 gives 1, exponent 1 gives the base)
/// this is, by induction on the exponent, exactness of `**` for all bases and exponents 0..=31 - the quick-tier part of
/// power_int, without an iterated reference computation
pub fn power_small_exponent_int<S: Src>(s: &mut S) {
    let a = s.i32();
    let b = s.i32();
    s.assume(2 <= b && b <= 31);
    let prev = Integer(a).power(Integer(b - 1));
    let r = Integer(a).power(Integer(b));
    // one more factor: exact when it fits; once a power of a base of magnitude >= 2 no longer fits, no later one does
    // (bases -1, 0, 1 never overflow, so `prev` is never None for them - checked by the first arm)
    let want = match prev {
        Some(Integer(p)) => { let m = p as i64 * a as i64; if m > i32::MAX as i64 || m < i32::MIN as i64 { None } else { Some(Integer(m as i32)) } }
        Some(_) => { s.check(false, "exact_or_none"); None }
        None => { s.check(a >= 2 || a <= -2, "exact_or_none"); None }
    };
    s.check(same(r, want), "exact_or_none");
}

/// `**` on integers, the part that needs no multiplication chain: a negative exponent is undefined,
/// exponent 0 gives 1, exponent 1 gives the base (the general case is power_int, thorough tier)
pub fn power_undefined_int<S: Src>(s: &mut S) {
    let a = s.i32();
    let b = s.i32();
    s.assume(b < 2);
    let r = Integer(a).power(Integer(b));
    s.check(same(r, if b < 0 { None } else if b == 0 { Some(Integer(1)) } else { Some(Integer(a)) }), "exact_or_none");
}

/// `/` on integers: q is the quotient truncated toward zero, stated by its mathematical definition
/// a = q*b + rem, |rem| < |b|, rem = 0 or sign(rem) = sign(a)   (no machine division in the specification)
fn division_law<S: Src>(s: &mut S, a: i32, b: i32, r: Option<SimpleNumber>) {
    if b == 0 || (a == i32::MIN && b == -1) {
        s.check(r.is_none(), "undefined_is_none");
    } else {
        match r {
            Some(Integer(q)) => {
                let (ai, bi, qi) = (a as i64, b as i64, q as i64);
                let rem = ai - qi * bi;
                s.check(rem.abs() < bi.abs(), "exact_or_none");
                s.check(rem == 0 || ((rem < 0) == (ai < 0)), "exact_or_none");
            }
            _ => s.check(false, "exact_or_none"),
        }
    }
}
pub fn divide_int<S: Src>(s: &mut S) {
    let a = s.i32();
    let b = s.i32();
    let r = Integer(a).divide(Integer(b));
    division_law(s, a, b, r);
}
pub fn integer_divide_int<S: Src>(s: &mut S) {
    let a = s.i32();
    let b = s.i32();
    let r = Integer(a).integer_divide(Integer(b));
    division_law(s, a, b, r);
}
/// `%` on integers: undefined cases are None; otherwise |m| < |b| and m = 0 or sign(m) = sign(a) (complete).
/// That a - m is a multiple of b is beyond the SAT back end for 32-bit operands (two dividers and a
/// multiplier: no result in 15 min with CaDiCaL or Kissat); see remainder_exact_16bit for the bounded stand-in.
pub fn remainder_shape_int<S: Src>(s: &mut S) {
    let a = s.i32();
    let b = s.i32();
    let r = Integer(a).remainder(Integer(b));
    if b == 0 || (a == i32::MIN && b == -1) {
        s.check(r.is_none(), "undefined_is_none");
    } else {
        match r {
            Some(Integer(m)) => {
                let (ai, bi, mi) = (a as i64, b as i64, m as i64);
                s.check(mi.abs() < bi.abs(), "shape");
                s.check(mi == 0 || ((mi < 0) == (ai < 0)), "shape");
            }
            _ => s.check(false, "shape"),
        }
    }
}
/// BOUNDED: operands restricted to -32768..=32767
pub fn remainder_exact_16bit<S: Src>(s: &mut S) {
    let a = s.i32();
    let b = s.i32();
    s.assume(a >= -32768 && a <= 32767 && b >= -32768 && b <= 32767 && b != 0);
    let r = Integer(a).remainder(Integer(b));
    let q = Integer(a).divide(Integer(b));
    match (r, q) {
        (Some(Integer(m)), Some(Integer(q))) => s.check(a - q * b == m, "exact_16bit"),
        _ => s.check(false, "exact_16bit"),
    }
}

pub fn bitwise_float_is_none<S: Src>(s: &mut S) {
    let a = any_num(s);
    let b = any_num(s);
    s.assume(is_float(a) || is_float(b));
    s.check(a.bitwise_and(b).is_none(), "float_is_none");
    s.check(a.bitwise_or(b).is_none(), "float_is_none");
    s.check(a.bitwise_xor(b).is_none(), "float_is_none");
    s.check(a.bitwise_shift_left(b).is_none(), "float_is_none");
    s.check(a.bitwise_shift_right(b).is_none(), "float_is_none");
    if is_float(a) { s.check(a.bitwise_not().is_none(), "float_is_none"); }
}

pub fn mixed_promotes_to_float<S: Src>(s: &mut S) {
    let a = any_num(s);
    let b = any_num(s);
    s.assume(is_float(a) != is_float(b));
    s.assume(finite(a) && finite(b));
    s.check(is_float_or_none(a.plus(b)), "promotes");
    s.check(is_float_or_none(a.subtract(b)), "promotes");
    s.check(is_float_or_none(a.multiply(b)), "promotes");
    s.check(is_float_or_none(a.divide(b)), "promotes");
}

macro_rules! float_binop {
    ($name:ident, $method:ident, $op:tt) => {
        pub fn $name<S: Src>(s: &mut S) {
            let x = s.f64();
            let y = s.f64();
            s.assume(x.is_finite() && y.is_finite());
            let r = Float(x).$method(Float(y));
            s.check(same(r, finite_or_none(x $op y)), "finite_or_none");
        }
    };
}
float_binop!(plus_float, plus, +);
float_binop!(subtract_float, subtract, -);
float_binop!(multiply_float, multiply, *);

pub fn divide_float<S: Src>(s: &mut S) {
    let x = s.f64();
    let y = s.f64();
    s.assume(x.is_finite() && y.is_finite());
    let r = Float(x).divide(Float(y));
    if y == 0.0 { s.check(r.is_none(), "finite_or_none"); } else { s.check(same(r, finite_or_none(x / y)), "finite_or_none"); }
}

/// float `//` where the quotient lies strictly inside the i32 range: the result is the integer n obtained by
/// dropping the fraction of the quotient d (n <= d < n+1 for d >= 0, n-1 < d <= n for d < 0); divisor zero: undefined
pub fn integer_divide_float<S: Src>(s: &mut S) {
    let x = s.f64();
    let y = s.f64();
    s.assume(x.is_finite() && y.is_finite());
    let r = Float(x).integer_divide(Float(y));
    if y == 0.0 { s.check(r.is_none(), "float_exact_or_none"); return; }
    let d = x / y;
    if d > -2147483649.0 && d < 2147483648.0 {
        match r {
            Some(Integer(n)) => {
                let nf = n as f64;
                s.check(if d >= 0.0 { nf <= d && d < nf + 1.0 } else { nf - 1.0 < d && d <= nf }, "float_exact_or_none");
            }
            _ => s.check(false, "float_exact_or_none"),
        }
    }
}

/// bounded stand-in for integer_divide_float (which needs a symbolic 64-bit float division, tier deep): operands
/// restricted to quarters k/4 with k a 16-bit integer
pub fn integer_divide_float_quarters_16bit<S: Src>(s: &mut S) {
    let a = s.i32();
    let b = s.i32();
    s.assume(a >= -32768 && a <= 32767 && b >= -32768 && b <= 32767);
    let x = (a as f64) * 0.25;
    let y = (b as f64) * 0.25;
    let r = Float(x).integer_divide(Float(y));
    if b == 0 { s.check(r.is_none(), "float_exact_or_none"); return; }
    // x / y = a / b exactly as a rational; truncation toward zero is Rust's integer division
    s.check(same(r, Some(Integer(a / b))), "float_exact_or_none");
}

/// the same with 8-bit numerators (quick tier)
pub fn integer_divide_float_quarters_8bit<S: Src>(s: &mut S) {
    let a = s.i32();
    let b = s.i32();
    s.assume(a >= -128 && a <= 127 && b >= -128 && b <= 127);
    let x = (a as f64) * 0.25;
    let y = (b as f64) * 0.25;
    let r = Float(x).integer_divide(Float(y));
    if b == 0 { s.check(r.is_none(), "float_exact_or_none"); return; }
    s.check(same(r, Some(Integer(a / b))), "float_exact_or_none");
}

/// float `//` where the quotient lies outside the i32 range: must be undefined (None), never another number
pub fn integer_divide_float_out_of_range<S: Src>(s: &mut S) {
    let x = s.f64();
    let y = s.f64();
    s.assume(x.is_finite() && y.is_finite() && y != 0.0);
    let r = Float(x).integer_divide(Float(y));
    let d = x / y;
    if !(d > -2147483649.0 && d < 2147483648.0) { s.check(r.is_none(), "out_of_range_is_none"); }
}

pub fn unary_float<S: Src>(s: &mut S) {
    let x = s.f64();
    s.assume(x.is_finite());
    s.check(same(Float(x).absolute_value(), finite_or_none(x.abs())), "finite_or_none");
    s.check(same(Float(x).opposite(), finite_or_none(-x)), "finite_or_none");
    s.check(same(Float(x).increment(), finite_or_none(x + 1.0)), "finite_or_none");
    s.check(same(Float(x).decrement(), finite_or_none(x - 1.0)), "finite_or_none");
}


/// C07: `**` on integers never panics, whatever base and exponent (no claim about the value here: that is
/// power_int, thorough tier - this harness only carries Kani's own overflow / shift / index checks)
pub fn power_no_panic_int<S: Src>(s: &mut S) {
    let a = s.i32();
    let b = s.i32();
    let r = Integer(a).power(Integer(b));
    s.check(b >= 0 || r.is_none(), "negative_exponent_is_none");
}

/// C09: division by zero is undefined whatever the representation of the zero (integer 0, +0.0, -0.0) and whatever
/// the dividend (including zero itself: 0/0 must not come back as a not-a-number)
pub fn zero_divisor_is_none<S: Src>(s: &mut S) {
    let a = any_num(s);
    s.assume(!is_nan(a));
    let z = if s.bool() { Integer(0) } else if s.bool() { Float(0.0) } else { Float(-0.0) };
    s.check(a.divide(z).is_none(), "zero_divisor_is_none");
    s.check(a.integer_divide(z).is_none(), "zero_divisor_is_none");
}

/// C09: no operation hands back a non-finite float for finite operands (mixed and float operands; `**` and `%` on
/// floats are libm calls CBMC does not model and are excluded)
pub fn results_are_finite<S: Src>(s: &mut S) {
    let a = any_num(s);
    let b = any_num(s);
    s.assume(finite(a) && finite(b));
    s.assume(is_float(a) || is_float(b));
    let r = match s.i32() { 0 => a.plus(b), 1 => a.subtract(b), _ => a.divide(b) };
    s.check(match r { Some(n) => finite(n), None => true }, "finite_or_none");
}

// ---- C11 ----
pub fn eq_reflexive_symmetric<S: Src>(s: &mut S) {
    let a = any_num(s);
    let b = any_num(s);
    if !is_nan(a) { s.check(a == a, "reflexive"); }
    s.check((a == b) == (b == a), "symmetric");
}
pub fn eq_transitive<S: Src>(s: &mut S) {
    let a = any_num(s);
    let b = any_num(s);
    let c = any_num(s);
    if a == b && b == c { s.check(a == c, "transitive"); }
}
pub fn eq_agrees_with_cmp<S: Src>(s: &mut S) {
    let a = any_num(s);
    let b = any_num(s);
    s.check((a == b) == (a.partial_cmp(&b) == Some(Ordering::Equal)), "agrees_with_order");
}
pub fn eq_is_numeric<S: Src>(s: &mut S) {
    let i = s.i32();
    let f = s.f64();
    s.check((Integer(i) == Float(f)) == (f == i as f64), "numeric");
    s.check((Float(f) == Integer(i)) == (f == i as f64), "numeric");
    let j = s.i32();
    s.check((Integer(i) == Integer(j)) == (i == j), "numeric");
    let g = s.f64();
    s.check((Float(f) == Float(g)) == (f == g), "numeric");
}

// ---- C12 ----
pub fn cmp_total_on_non_nan<S: Src>(s: &mut S) {
    let a = any_num(s);
    let b = any_num(s);
    let r = a.partial_cmp(&b);
    s.check(r.is_none() == (is_nan(a) || is_nan(b)), "total_on_non_nan");
}
pub fn cmp_antisymmetric<S: Src>(s: &mut S) {
    let a = any_num(s);
    let b = any_num(s);
    s.check(a.partial_cmp(&b) == b.partial_cmp(&a).map(|o| o.reverse()), "antisymmetric");
}
pub fn cmp_transitive<S: Src>(s: &mut S) {
    let a = any_num(s);
    let b = any_num(s);
    let c = any_num(s);
    if a.partial_cmp(&b) == Some(Ordering::Less) && b.partial_cmp(&c) == Some(Ordering::Less) {
        s.check(a.partial_cmp(&c) == Some(Ordering::Less), "transitive");
    }
    if a.partial_cmp(&b) == Some(Ordering::Less) && b.partial_cmp(&c) == Some(Ordering::Equal) {
        s.check(a.partial_cmp(&c) == Some(Ordering::Less), "transitive");
    }
}
pub fn cmp_is_numeric<S: Src>(s: &mut S) {
    let i = s.i32();
    let j = s.i32();
    s.check(Integer(i).partial_cmp(&Integer(j)) == Some(i.cmp(&j)), "numeric");
    let f = s.f64();
    let g = s.f64();
    s.check(Float(f).partial_cmp(&Float(g)) == f.partial_cmp(&g), "numeric");
    // i32 -> f64 is exact, so the mixed order is the order of the denoted reals
    s.check(Integer(i).partial_cmp(&Float(f)) == (i as f64).partial_cmp(&f), "numeric");
    s.check(Float(f).partial_cmp(&Integer(i)) == f.partial_cmp(&(i as f64)), "numeric");
}
pub fn operators_are_readings_of_cmp<S: Src>(s: &mut S) {
    let a = any_num(s);
    let b = any_num(s);
    let r = a.partial_cmp(&b);
    s.check((a < b) == (r == Some(Ordering::Less)), "readings");
    s.check((a <= b) == (r == Some(Ordering::Less) || r == Some(Ordering::Equal)), "readings");
    s.check((a > b) == (r == Some(Ordering::Greater)), "readings");
    s.check((a >= b) == (r == Some(Ordering::Greater) || r == Some(Ordering::Equal)), "readings");
}

// ---- C07 ----
pub fn usize_from_no_panic<S: Src>(s: &mut S) {
    let a = any_num(s);
    let _u: usize = usize::from(a);
}
