//! Contracts on `impl GarnishNumber for SimpleNumber`, `PartialEq`, `PartialOrd` (data/src/data/number.rs),
//! written from property C09/C11/C12's statement as plain Rust predicates: `post_<f>(args, result) -> bool`.
//! The same text is used by the Kani harnesses (assert) and by the replay binary (evaluation in plain Rust).
use garnish_lang_simple_data::SimpleNumber;
use garnish_lang_simple_data::SimpleNumber::*;

fn fits(m: i64) -> Option<SimpleNumber> {
    if m >= i32::MIN as i64 && m <= i32::MAX as i64 { Some(Integer(m as i32)) } else { None }
}

pub fn same(a: Option<SimpleNumber>, b: Option<SimpleNumber>) -> bool {
    match (a, b) {
        (None, None) => true,
        (Some(Integer(x)), Some(Integer(y))) => x == y,
        (Some(Float(x)), Some(Float(y))) => x == y || (x.is_nan() && y.is_nan()),
        _ => false,
    }
}

// ---- C09: integer x integer, exact or None ----
pub fn ref_plus(a: i32, b: i32) -> Option<SimpleNumber> { fits(a as i64 + b as i64) }
pub fn ref_subtract(a: i32, b: i32) -> Option<SimpleNumber> { fits(a as i64 - b as i64) }
pub fn ref_multiply(a: i32, b: i32) -> Option<SimpleNumber> { fits(a as i64 * b as i64) }
/// `/` and `//` truncate toward zero; division by zero and MIN / -1 (quotient overflows) are undefined.
/// Machine division on the non-trapping domain is taken as truncated division (assumption, DESIGN.md 7.9).
pub fn ref_divide(a: i32, b: i32) -> Option<SimpleNumber> {
    if b == 0 || (a == i32::MIN && b == -1) { None } else { Some(Integer(a / b)) }
}
/// the remainder of MIN by -1 counts as overflow since its quotient overflows
pub fn ref_remainder(a: i32, b: i32) -> Option<SimpleNumber> {
    if b == 0 || (a == i32::MIN && b == -1) { None } else { Some(Integer(a % b)) }
}
pub fn ref_power(a: i32, b: i32) -> Option<SimpleNumber> {
    if b < 0 { return None; }
    if a == 0 { return Some(Integer(if b == 0 { 1 } else { 0 })); }
    if a == 1 { return Some(Integer(1)); }
    if a == -1 { return Some(Integer(if b % 2 == 0 { 1 } else { -1 })); }
    if b >= 32 { return None; } // |a| >= 2: |a|^32 >= 2^32 does not fit
    let mut acc: i64 = 1;
    let mut i = 0;
    while i < b {
        acc *= a as i64;
        if acc > i32::MAX as i64 || acc < i32::MIN as i64 { return None; }
        i += 1;
    }
    Some(Integer(acc as i32))
}
pub fn ref_absolute_value(a: i32) -> Option<SimpleNumber> { fits((a as i64).abs()) }
pub fn ref_opposite(a: i32) -> Option<SimpleNumber> { fits(-(a as i64)) }
pub fn ref_increment(a: i32) -> Option<SimpleNumber> { fits(a as i64 + 1) }
pub fn ref_decrement(a: i32) -> Option<SimpleNumber> { fits(a as i64 - 1) }
pub fn ref_bitwise_not(a: i32) -> Option<SimpleNumber> { Some(Integer(!a)) }
pub fn ref_bitwise_and(a: i32, b: i32) -> Option<SimpleNumber> { Some(Integer(a & b)) }
pub fn ref_bitwise_or(a: i32, b: i32) -> Option<SimpleNumber> { Some(Integer(a | b)) }
pub fn ref_bitwise_xor(a: i32, b: i32) -> Option<SimpleNumber> { Some(Integer(a ^ b)) }
/// a shift count outside 0..31 is undefined; inside, `<<` is the 32-bit bit pattern shifted (bits shifted out are dropped)
pub fn ref_shift_left(a: i32, b: i32) -> Option<SimpleNumber> {
    if b < 0 || b > 31 { None } else { Some(Integer(((a as u32 as u64) << b) as u32 as i32)) }
}
/// `>>` is the arithmetic shift: floor(a / 2^b)
pub fn ref_shift_right(a: i32, b: i32) -> Option<SimpleNumber> {
    if b < 0 || b > 31 { None } else { Some(Integer(((a as i64) >> b) as i32)) }
}

// ---- C09: floats ----
pub fn is_float_or_none(r: Option<SimpleNumber>) -> bool {
    match r { None => true, Some(Float(_)) => true, Some(Integer(_)) => false }
}
/// result of a float operation whose IEEE result is `f`: that float when finite, None otherwise
pub fn finite_or_none(f: f64) -> Option<SimpleNumber> { if f.is_finite() { Some(Float(f)) } else { None } }
/// the truncated quotient x/y is a finite value inside the i32 range
pub fn quotient_fits_i32(x: f64, y: f64) -> bool { let q = (x / y).trunc(); q.is_finite() && q >= -2147483648.0 && q <= 2147483647.0 }
/// float `//`: the quotient truncated toward zero when it is representable as i32, None otherwise
pub fn ref_float_integer_divide(x: f64, y: f64) -> Option<SimpleNumber> {
    if y == 0.0 { return None; }
    let q = (x / y).trunc();
    if q.is_finite() && q >= -2147483648.0 && q <= 2147483647.0 { Some(Integer(q as i32)) } else { None }
}
