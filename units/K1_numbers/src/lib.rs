#![allow(unused_imports, dead_code)]
//! Harness bodies are written once over a value source `Src`: under Kani the source is `kani::any()`
//! (all values), in the replay binary it is the concrete byte vectors Kani printed for a failure.
pub mod contracts;
pub mod bodies;

pub trait Src {
    fn i32(&mut self) -> i32;
    fn f64(&mut self) -> f64;
    fn bool(&mut self) -> bool;
    /// pre-condition of the contract
    fn assume(&mut self, c: bool);
    /// post-condition / law; `what` names the clause
    fn check(&mut self, c: bool, what: &'static str);
}

#[cfg(kani)]
mod harness {
    use crate::bodies::*;
    use crate::Src;
    struct K;
    impl Src for K {
        fn i32(&mut self) -> i32 { kani::any() }
        fn f64(&mut self) -> f64 { kani::any() }
        fn bool(&mut self) -> bool { kani::any() }
        fn assume(&mut self, c: bool) { kani::assume(c) }
        fn check(&mut self, c: bool, what: &'static str) { assert!(c, "{}", what) }
    }
    macro_rules! proof {
        ($($name:ident),* $(,)?) => { $( #[kani::proof] fn $name() { crate::bodies::$name(&mut K) } )* };
    }
    proof!(plus_int, subtract_int, multiply_int, divide_int, integer_divide_int, remainder_shape_int,
           bitwise_and_int, bitwise_or_int, bitwise_xor_int, bitwise_shift_left_int, bitwise_shift_right_int,
           absolute_value_int, opposite_int, increment_int, decrement_int, bitwise_not_int,
           bitwise_float_is_none, mixed_promotes_to_float, plus_float, subtract_float, multiply_float, divide_float,
           integer_divide_float, unary_float, eq_reflexive_symmetric, eq_transitive, eq_agrees_with_cmp, eq_is_numeric,
           cmp_total_on_non_nan, cmp_antisymmetric, cmp_transitive, cmp_is_numeric, operators_are_readings_of_cmp,
           usize_from_no_panic, remainder_exact_16bit, zero_divisor_is_none, results_are_finite, integer_divide_float_out_of_range, integer_divide_float_quarters_16bit, integer_divide_float_quarters_8bit);

    #[kani::proof]
    #[kani::unwind(34)]
    fn power_no_panic_int() { crate::bodies::power_no_panic_int(&mut K) }

    #[kani::proof]
    #[kani::unwind(34)]
    fn power_undefined_int() { crate::bodies::power_undefined_int(&mut K) }

    // i32::overflowing_pow loops at most 32 times (exponent bits); the reference loops at most 31 times.
    // Unwinding assertions are on: passing them makes this complete, not bounded.
    #[kani::proof]
    #[kani::unwind(8)]
    fn power_small_exponent_int() { crate::bodies::power_small_exponent_int(&mut K) }

    #[kani::proof]
    #[kani::unwind(34)]
    fn power_int() { crate::bodies::power_int(&mut K) }
}
