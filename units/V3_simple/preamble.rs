// V3 preamble: trusted specification layer for the SimpleGarnishData unit (data/src/simple.rs, data/src/runtime.rs,
// data/src/data/mod.rs). Real types are extracted from /repo on every run (markers below); external dependencies
// (DataError, the two host function-pointer fields, usize <-> SimpleNumber conversions of number.rs) are opaque here.
#![allow(unused_imports, unused_variables, dead_code, unused_mut, unreachable_code, unused_parens, non_snake_case)]
use vstd::prelude::*;
use std::collections::{HashMap, HashSet};
use std::fmt::{Debug, Display};
use std::hash::Hash;

verus! {

// the shipped targets are 64-bit (assumption A-64BIT, listed in the evidence): `(end - start) as usize + 1` on two i32 cannot wrap
global size_of usize == 8;

// vstd's model of std::collections::HashMap (u64 keys, the default hasher builder)
broadcast use vstd::std_specs::hash::group_hash_axioms;

//@@EXTRACT enum traits/src/data.rs GarnishDataType
//@@EXTRACT enum traits/src/instructions.rs Instruction
//@@EXTRACT enum data/src/data/number.rs SimpleNumber derive=Clone,Copy
//@@EXTRACT enum traits/src/data.rs SymbolListPart derive=none

// DataError (data/src/error.rs): external type; message text and backtrace dropped
#[verifier::external_body]
pub struct DataError { _p: u8 }
impl From<String> for DataError {
    #[verifier::external_body]
    fn from(s: String) -> (r: Self) { unimplemented!() }
}
impl From<&str> for DataError {
    #[verifier::external_body]
    fn from(s: &str) -> (r: Self) { unimplemented!() }
}
pub type DataCastResult<T> = Result<T, DataError>;

/// stands for every `format!(…)` in the extracted text (rule R2)
#[verifier::external_body]
pub fn verif_msg() -> String { unimplemented!() }
/// stands for `unimplemented!/todo!/unreachable!/panic!` (rule R6): reaching it is an obligation
#[verifier::external_body]
pub fn verif_panic() -> !
    requires false
{ unimplemented!() }

// slice::to_vec (assumed): an element-wise clone of the slice
pub assume_specification<T: Clone> [<[T]>::to_vec] (s: &[T]) -> (r: Vec<T>)
    ensures r@.len() == s@.len(), forall|i: int| 0 <= i < s@.len() ==> call_ensures(T::clone, (&s@[i],), #[trigger] r@[i]);

// char::is_ascii (assumed; std): the code point is below 128
pub assume_specification [char::is_ascii] (c: &char) -> (r: bool)
    ensures r == ((*c as u32) <= 0x7f);

// core::mem::take (assumed; std): hands the value out and leaves `T::default()` behind
pub assume_specification<T: Default> [core::mem::take::<T>] (dest: &mut T) -> (r: T)
    ensures r == *old(dest), call_ensures(<T as Default>::default, (), *final(dest));

/// marker mirror of data/src/simple.rs::SimpleDataType (its supertraits are not used by the extracted code)
pub trait SimpleDataType: Clone {}

/// the two host hooks of SimpleGarnishData are function pointers taking the data object itself; opaque here (rule R8)
#[verifier::external_body]
pub struct VerifHostFn { _p: u8 }

/// `usize -> SimpleNumber` (number.rs: `SimpleNumber::Integer(x as i32)`), assumed
#[verifier::external_body]
pub fn number_from_usize(x: usize) -> (r: SimpleNumber)
    ensures r == SimpleNumber::Integer(x as i32)
{ unimplemented!() }

//@@EXTRACT struct data/src/data/stack_frame.rs SimpleStackFrame pubfields=1 derive=Clone,Copy
//@@EXTRACT enum data/src/data/mod.rs SimpleData derive=none nodefaults=1
//@@EXTRACT struct data/src/data/mod.rs SimpleDataList pubfields=1 nodefaults=1
//@@EXTRACT struct data/src/instruction.rs SimpleInstruction pubfields=1 derive=Clone,Copy
//@@EXTRACT struct data/src/data/iterators.rs DataIndexIterator pubfields=1
//@@EXTRACT struct data/src/simple.rs SimpleGarnishData pubfields=1 nodefaults=1 subst=SimpleResolver<T,%20A>=>VerifHostFn;;SimpleOpHandler<T,%20A>=>VerifHostFn

/// the Garnish type of a cell (what get_data_type reports)
pub open spec fn simple_type_of<T: SimpleDataType>(d: SimpleData<T>) -> GarnishDataType {
    match d {
        SimpleData::Unit => GarnishDataType::Unit,
        SimpleData::True => GarnishDataType::True,
        SimpleData::False => GarnishDataType::False,
        SimpleData::Type(_) => GarnishDataType::Type,
        SimpleData::Number(_) => GarnishDataType::Number,
        SimpleData::Char(_) => GarnishDataType::Char,
        SimpleData::Byte(_) => GarnishDataType::Byte,
        SimpleData::Symbol(_) => GarnishDataType::Symbol,
        SimpleData::SymbolList(_) => GarnishDataType::SymbolList,
        SimpleData::Expression(_) => GarnishDataType::Expression,
        SimpleData::External(_) => GarnishDataType::External,
        SimpleData::CharList(_) => GarnishDataType::CharList,
        SimpleData::ByteList(_) => GarnishDataType::ByteList,
        SimpleData::Pair(_, _) => GarnishDataType::Pair,
        SimpleData::Range(_, _) => GarnishDataType::Range,
        SimpleData::Slice(_, _) => GarnishDataType::Slice,
        SimpleData::Partial(_, _) => GarnishDataType::Partial,
        SimpleData::List(_, _) => GarnishDataType::List,
        SimpleData::Concatenation(_, _) => GarnishDataType::Concatenation,
        SimpleData::StackFrame(_) => GarnishDataType::Custom,
        SimpleData::Custom(_) => GarnishDataType::Custom,
    }
}

/// `Some(v)` iff `item` is a pair whose left is the symbol `s`; `v` is that pair's right (the same reading as unit V1's)
pub open spec fn assoc_value<T: SimpleDataType>(cells: Seq<SimpleData<T>>, item: usize, s: u64) -> Option<usize> {
    if item < cells.len() { match cells[item as int] {
        SimpleData::Pair(l, r) => if l < cells.len() { match cells[l as int] { SimpleData::Symbol(x) => if x == s { Some(r) } else { None }, _ => None } } else { None },
        _ => None,
    } } else { None }
}

/// `x` occurs in `s`
pub open spec fn occurs(s: Seq<usize>, x: usize) -> bool { exists|k: int| 0 <= k < s.len() && s[k] == x }

/// the address is a value of the data table, not a frame entry
pub open spec fn is_operand<T: SimpleDataType>(cells: Seq<SimpleData<T>>, a: usize) -> bool {
    a < cells.len() && !(cells[a as int] is StackFrame)
}

impl<T: SimpleDataType, A> SimpleGarnishData<T, A> {
    /// every address stored inside a pair or in a list's tables is an address of the data table (what the adders establish)
    pub open spec fn closed(&self) -> bool {
        forall|a: int| 0 <= a < self.cells().len() ==> (match #[trigger] self.cells()[a] {
            SimpleData::Pair(l, r) => l < self.cells().len() && r < self.cells().len(),
            SimpleData::List(items, assoc) => (forall|k: int| 0 <= k < items@.len() ==> #[trigger] items@[k] < self.cells().len())
                && (forall|k: int| 0 <= k < assoc@.len() ==> #[trigger] assoc@[k] < self.cells().len()),
            _ => true,
        })
    }
    /// the association table of the list at `a`
    pub open spec fn assoc_of(&self, a: usize) -> Seq<usize> {
        match self.cells()[a as int] { SimpleData::List(_, assoc) => assoc@, _ => Seq::empty() }
    }
    pub open spec fn is_list(&self, a: usize) -> bool {
        a < self.cells().len() && self.cells()[a as int] is List
    }
    /// the data table
    pub open spec fn cells(&self) -> Seq<SimpleData<T>> { self.data.list@ }
}

/// mirror of data/src/data/mod.rs::UNIT_INDEX (the unit value lives at address 0)
pub const UNIT_INDEX: usize = 0;

/// Stands for the Slice-of-List sub-arm of simple.rs::collect_concatenation_indices (`Extents::new` on numbers and a `for` over a
/// user-defined iterator, rule R8-cut). Assumed: reads the data object only; what it appends to `items` is not specified (the
/// walk is outside the covered cases then).
#[verifier::external_body]
pub fn verif_collect_slice<T: SimpleDataType, A>(this: &SimpleGarnishData<T, A>, list: usize, range: usize, items: &mut Vec<usize>) -> (r: Result<(), DataError>)
{ unimplemented!() }

/// Stands for `v.iter().skip(skip).take(take).map(usize::clone).for_each(|i| items.push(i))` in the Slice-of-Concatenation
/// sub-arm (iterator adapters, rule R8-cut; the two count expressions stay in the verified text). Assumed: appends only.
#[verifier::external_body]
pub fn verif_skip_take(v: &Vec<usize>, skip: usize, take: usize, items: &mut Vec<usize>)
{ unimplemented!() }

/// One call of a host hook stored in the data object (a function pointer, opaque to Verus - rule R8): `host_resolve_call(f, pre,
/// symbol, post, r)` reads "calling the pointer `f` with (`pre`, `symbol`) leaves the object as `post` and answers `r`". Uninterpreted:
/// nothing is assumed about what a host function does, only that the stand-ins below perform exactly one such call.
pub uninterp spec fn host_resolve_call<T: SimpleDataType, A>(f: VerifHostFn, pre: SimpleGarnishData<T, A>, symbol: u64, post: SimpleGarnishData<T, A>, r: Result<bool, DataError>) -> bool;
pub uninterp spec fn host_op_call<T: SimpleDataType, A>(f: VerifHostFn, pre: SimpleGarnishData<T, A>, op: Instruction, left: (GarnishDataType, usize), right: (GarnishDataType, usize), post: SimpleGarnishData<T, A>, r: Result<bool, DataError>) -> bool;

/// Stands for the expression `(self.resolver)(self, symbol)` (a call through a function-pointer field; rule R8). Assumed: it is one
/// call of the installed pointer with the object as it is and exactly these arguments.
#[verifier::external_body]
pub fn verif_call_resolver<T: SimpleDataType, A>(this: &mut SimpleGarnishData<T, A>, symbol: u64) -> (r: Result<bool, DataError>)
    ensures host_resolve_call(old(this).resolver, *old(this), symbol, *final(this), r)
{ unimplemented!() }

/// Stands for the expression `(self.op_handler)(self, operation, left, right)` (rule R8), assumed as above.
#[verifier::external_body]
pub fn verif_call_op_handler<T: SimpleDataType, A>(this: &mut SimpleGarnishData<T, A>, operation: Instruction, left: (GarnishDataType, usize), right: (GarnishDataType, usize)) -> (r: Result<bool, DataError>)
    ensures host_op_call(old(this).op_handler, *old(this), operation, left, right, *final(this), r)
{ unimplemented!() }

/// the extents select a whole sequence: `start` is `zero()` and `end` is `max_value()` (what equality and the casts pass)
pub uninterp spec fn selects_everything(e: VerifExtents) -> bool;
/// stands for `Extents<SimpleNumber>` (traits/src/data.rs; its bounds need PartialOrd/Debug impls the extract does not carry) - rule R8
#[verifier::external_body]
pub struct VerifExtents { _p: u8 }

// ---------------------------------------------------------------------------------
// C15: the intern table of SimpleGarnishData (simple.rs::cache_add)
// ---------------------------------------------------------------------------------
/// the key under which cache_add looks a value up first: `DefaultHasher` fed with the value and its type (uninterpreted - nothing is
/// assumed about the hash, in particular not that different values have different keys)
pub uninterp spec fn key_of<T: SimpleDataType>(v: SimpleData<T>) -> u64;
/// what `==` (the derived PartialEq of SimpleData, numbers by SimpleNumber's own PartialEq) answers for two cells; uninterpreted
pub uninterp spec fn data_eq<T: SimpleDataType>(a: SimpleData<T>, b: SimpleData<T>) -> bool;

/// Stands for the four statements of cache_add that compute the key (`DefaultHasher::new()`, two `hash` calls, `finish()`; rule
/// R8-cut). Assumed: the key is a function of the value.
#[verifier::external_body]
pub fn verif_hash_key<T: SimpleDataType>(value: &SimpleData<T>) -> (r: u64)
    ensures r == key_of(*value)
{ unimplemented!() }

/// the derived `PartialEq` of SimpleData (the derive is dropped by rule R7): one call answers `data_eq`
impl<T: SimpleDataType> PartialEq for SimpleData<T> {
    #[verifier::external_body]
    fn eq(&self, other: &Self) -> bool { unimplemented!() }
}
impl<T: SimpleDataType> vstd::std_specs::cmp::PartialEqSpecImpl for SimpleData<T> {
    open spec fn obeys_eq_spec() -> bool { true }
    open spec fn eq_spec(&self, other: &Self) -> bool { data_eq(*self, *other) }
}
/// assumed about the derived `==`: values of different variants are never equal
#[verifier::external_body]
pub proof fn axiom_data_eq_same_type<T: SimpleDataType>()
    ensures forall|a: SimpleData<T>, b: SimpleData<T>| #[trigger] data_eq(a, b) ==> simple_type_of(a) == simple_type_of(b)
{}

/// the n-th key tried for a value whose own key is `h0` (keys wrap around)
pub open spec fn step_key(h0: u64, n: nat) -> u64 { ((h0 as nat + n) % 0x1_0000_0000_0000_0000) as u64 }
/// the entry `addr` of the intern table answers a request for `value`
pub open spec fn hit<T: SimpleDataType>(cells: Seq<SimpleData<T>>, addr: usize, value: SimpleData<T>) -> bool {
    addr < cells.len() && data_eq(cells[addr as int], value)
}
/// `value` is filed at address `a`: trying the keys from its own key on, the first `n` entries belong to other values and the next
/// one is `a`, which holds an equal value
pub open spec fn filed_at<T: SimpleDataType>(cache: Map<u64, usize>, cells: Seq<SimpleData<T>>, value: SimpleData<T>, n: nat, a: usize) -> bool {
    (forall|j: nat| j < n ==> cache.contains_key(#[trigger] step_key(key_of(value), j)) && !hit(cells, cache[step_key(key_of(value), j)], value))
    && cache.contains_key(step_key(key_of(value), n)) && cache[step_key(key_of(value), n)] == a && hit(cells, a, value)
}
/// the table `c2` has every entry of `c1`
pub open spec fn table_grew(c1: Map<u64, usize>, c2: Map<u64, usize>) -> bool {
    forall|k: u64| c1.contains_key(k) ==> c2.contains_key(k) && #[trigger] c2[k] == c1[k]
}

/// a value stays filed where it is whatever is added to the data table or to the intern table afterwards - with
/// cache_add.same_constant_same_address this is "adding an equal constant again returns the same address", however many other
/// constants were added in between
//@@LEMMA C15
pub proof fn lemma_filed_is_stable<T: SimpleDataType>(c1: Map<u64, usize>, cells1: Seq<SimpleData<T>>, c2: Map<u64, usize>, cells2: Seq<SimpleData<T>>, value: SimpleData<T>, n: nat, a: usize)
    requires filed_at(c1, cells1, value, n, a), table_grew(c1, c2), cells1.len() <= cells2.len(),
        forall|i: int| 0 <= i < cells1.len() ==> cells2[i] == cells1[i],
        // entries of the first table name cells that exist (what cache_add establishes: `table_names_cells`)
        forall|k: u64| c1.contains_key(k) ==> #[trigger] c1[k] < cells1.len(),
    ensures filed_at(c2, cells2, value, n, a)
{
    assert forall|j: nat| j < n implies c2.contains_key(#[trigger] step_key(key_of(value), j)) && !hit(cells2, c2[step_key(key_of(value), j)], value) by {
        let k = step_key(key_of(value), j);
        assert(c1.contains_key(k) && c2[k] == c1[k] && c1[k] < cells1.len());
    }
    let k = step_key(key_of(value), n);
    assert(c2[k] == c1[k]);
}

/// two different constants never share an address: whatever address a request is answered with holds a value equal to the
/// requested one (cache_add.reads_back), so one address for two requests means both are equal to the value stored there
//@@LEMMA C15
pub proof fn lemma_filed_is_unique<T: SimpleDataType>(cache: Map<u64, usize>, cells: Seq<SimpleData<T>>, value: SimpleData<T>, n: nat, a: usize, m: nat, b: usize)
    requires filed_at(cache, cells, value, n, a), filed_at(cache, cells, value, m, b),
    ensures n == m && a == b
{
    if n < m { assert(!hit(cells, cache[step_key(key_of(value), n)], value)); }
    if m < n { assert(!hit(cells, cache[step_key(key_of(value), m)], value)); }
}

impl<T: SimpleDataType, A> SimpleGarnishData<T, A> {
    /// every entry of the intern table names a cell of the data table
    pub open spec fn table_names_cells(&self) -> bool {
        forall|k: u64| self.cache@.contains_key(k) ==> #[trigger] self.cache@[k] < self.cells().len()
    }
    /// the three constants a data object is created with (SimpleDataList::default): unit, false, true at addresses 0, 1, 2
    pub open spec fn has_constants(&self) -> bool {
        self.cells().len() >= 3 && self.cells()[0] is Unit && self.cells()[1] is False && self.cells()[2] is True
    }
    /// everything but the data table and the intern table
    pub open spec fn rest_unchanged(&self, o: &Self) -> bool {
        self.register == o.register && self.values == o.values && self.instructions == o.instructions
          && self.expression_table == o.expression_table && self.instruction_cursor == o.instruction_cursor
          && self.end_of_constant_data == o.end_of_constant_data && self.current_list == o.current_list
    }
}

impl DataIndexIterator {
    /// the items the iterator has still to yield, in order (unit V1's `rem`)
    pub open spec fn rem(&self) -> Seq<usize> {
        if self.current <= self.items@.len() { self.items@.skip(self.current as int) } else { Seq::empty() }
    }
}

// ---------------------------------------------------------------------------------
// C11 / C16: the flat item sequence of a concatenation (the same reading as unit V1's `walk`, over Simple's cells;
// slices among the parts and addresses outside the table are not covered: the function is `None` there)
// ---------------------------------------------------------------------------------
pub open spec fn cat_opt<X>(v: Seq<X>, t: Option<Seq<X>>) -> Option<Seq<X>> {
    match t { Some(x) => Some(v + x), None => None }
}

pub open spec fn walk3<T: SimpleDataType>(cells: Seq<SimpleData<T>>, work: Seq<usize>, fuel: nat) -> Option<Seq<usize>>
    decreases fuel
{
    if work.len() == 0 { Some(Seq::empty()) }
    else if fuel == 0 { None }
    else {
        let r = work.last(); let rest = work.drop_last();
        if r >= cells.len() { None }
        else { match cells[r as int] {
            SimpleData::Concatenation(l, rr) => walk3(cells, rest.push(rr).push(l), (fuel - 1) as nat),
            SimpleData::List(items, _) => cat_opt(items@, walk3(cells, rest, (fuel - 1) as nat)),
            SimpleData::Slice(_, _) => None,
            _ => cat_opt(seq![r], walk3(cells, rest, (fuel - 1) as nat)),
        } }
    }
}

pub open spec fn seq2(a: usize, b: usize) -> Seq<usize> { seq![a, b] }

/// loop invariant of collect_concatenation_indices: after `k` steps `vis` has been collected and `work` is pending
pub open spec fn walked3<T: SimpleDataType>(cells: Seq<SimpleData<T>>, w0: Seq<usize>, vis: Seq<usize>, work: Seq<usize>, k: nat) -> bool {
    (forall|f: nat| f < k ==> (#[trigger] walk3(cells, w0, f)) is None)
    && (forall|f: nat| f >= k ==> #[trigger] walk3(cells, w0, f) == cat_opt(vis, walk3(cells, work, (f - k) as nat)))
}
/// the walk has met a part the specification does not cover
pub open spec fn dead3<T: SimpleDataType>(cells: Seq<SimpleData<T>>, w0: Seq<usize>) -> bool {
    forall|f: nat| (#[trigger] walk3(cells, w0, f)) is None
}

pub proof fn lemma_walked3_init<T: SimpleDataType>(cells: Seq<SimpleData<T>>, w0: Seq<usize>)
    ensures walked3(cells, w0, Seq::empty(), w0, 0)
{
    assert forall|f: nat| f >= 0 implies #[trigger] walk3(cells, w0, f) == cat_opt(Seq::<usize>::empty(), walk3(cells, w0, (f - 0) as nat)) by {
        match walk3(cells, w0, f) { Some(x) => { assert(Seq::<usize>::empty() + x =~= x); } None => {} }
    }
}

pub proof fn lemma_walked3_concat<T: SimpleDataType>(cells: Seq<SimpleData<T>>, w0: Seq<usize>, vis: Seq<usize>, wb: Seq<usize>, k: nat, l: usize, r: usize)
    requires walked3(cells, w0, vis, wb, k), wb.len() > 0, wb.last() < cells.len(), cells[wb.last() as int] matches SimpleData::Concatenation(a, b) && a == l && b == r,
    ensures walked3(cells, w0, vis, wb.drop_last().push(r).push(l), k + 1)
{
    let wn = wb.drop_last().push(r).push(l);
    assert forall|f: nat| f >= k + 1 implies #[trigger] walk3(cells, w0, f) == cat_opt(vis, walk3(cells, wn, (f - (k + 1)) as nat)) by {
        assert(walk3(cells, w0, f) == cat_opt(vis, walk3(cells, wb, (f - k) as nat)));
        assert(walk3(cells, wb, (f - k) as nat) == walk3(cells, wn, (f - k - 1) as nat));
    }
    assert forall|f: nat| f < k + 1 implies (#[trigger] walk3(cells, w0, f)) is None by {
        if f == k { assert(walk3(cells, w0, f) == cat_opt(vis, walk3(cells, wb, 0))); }
    }
}

pub proof fn lemma_walked3_value<T: SimpleDataType>(cells: Seq<SimpleData<T>>, w0: Seq<usize>, vis: Seq<usize>, wb: Seq<usize>, k: nat, h: Seq<usize>)
    requires walked3(cells, w0, vis, wb, k), wb.len() > 0, wb.last() < cells.len(),
        !(cells[wb.last() as int] is Concatenation), !(cells[wb.last() as int] is Slice),
        h == (match cells[wb.last() as int] { SimpleData::List(items, _) => items@, _ => seq![wb.last()] }),
    ensures walked3(cells, w0, vis + h, wb.drop_last(), k + 1)
{
    let wn = wb.drop_last();
    assert forall|f: nat| f >= k + 1 implies #[trigger] walk3(cells, w0, f) == cat_opt(vis + h, walk3(cells, wn, (f - (k + 1)) as nat)) by {
        assert(walk3(cells, w0, f) == cat_opt(vis, walk3(cells, wb, (f - k) as nat)));
        let t = walk3(cells, wn, (f - k - 1) as nat);
        assert(walk3(cells, wb, (f - k) as nat) == cat_opt(h, t));
        match t { Some(x) => { assert(vis + (h + x) =~= (vis + h) + x); } None => {} }
    }
    assert forall|f: nat| f < k + 1 implies (#[trigger] walk3(cells, w0, f)) is None by {
        if f == k { assert(walk3(cells, w0, f) == cat_opt(vis, walk3(cells, wb, 0))); }
    }
}

pub proof fn lemma_walked3_dead<T: SimpleDataType>(cells: Seq<SimpleData<T>>, w0: Seq<usize>, vis: Seq<usize>, wb: Seq<usize>, k: nat)
    requires walked3(cells, w0, vis, wb, k), wb.len() > 0, wb.last() >= cells.len() || cells[wb.last() as int] is Slice,
    ensures dead3(cells, w0)
{
    assert forall|f: nat| (#[trigger] walk3(cells, w0, f)) is None by {
        if f >= k {
            assert(walk3(cells, w0, f) == cat_opt(vis, walk3(cells, wb, (f - k) as nat)));
            assert(walk3(cells, wb, (f - k) as nat) is None);
        }
    }
}

pub proof fn lemma_walked3_done<T: SimpleDataType>(cells: Seq<SimpleData<T>>, w0: Seq<usize>, vis: Seq<usize>, k: nat, fuel: nat, flat: Seq<usize>)
    requires walked3(cells, w0, vis, Seq::empty(), k), walk3(cells, w0, fuel) == Some(flat),
    ensures flat == vis,
{
    if fuel < k { assert(walk3(cells, w0, fuel) is None); }
    else {
        assert(walk3(cells, w0, fuel) == cat_opt(vis, walk3(cells, Seq::<usize>::empty(), (fuel - k) as nat)));
        assert(vis + Seq::<usize>::empty() =~= vis);
    }
}

} // verus!
