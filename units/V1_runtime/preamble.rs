// V1 preamble: the trusted specification layer for the runtime unit.
//
// Everything in this file is hand-written specification: a mirror of the traits in
// /repo/traits/src/{data,error,runtime}.rs carrying ghost views and one contract per
// method. The runtime functions extracted from /repo/runtime/src are verified against
// these contracts only. The extractor checks every mirrored method signature against the
// real trait text on every run (lost anchor => undecided).
//
// Items between the markers `//@@EXTRACT <kind> <path> <name>` are replaced by text taken
// from /repo on every run (enums the contracts talk about).
#![allow(unused_imports, unused_variables, dead_code, unused_mut, unreachable_code, unused_parens, non_snake_case)]
use vstd::prelude::*;
use vstd::std_specs::cmp::PartialOrdSpec;
use vstd::std_specs::cmp::PartialEqSpec;
use std::ops::{Add, AddAssign, Sub, SubAssign};
use std::cmp::Ordering;
use std::fmt::{Debug, Display};

verus! {

//@@EXTRACT enum traits/src/data.rs GarnishDataType
//@@EXTRACT enum traits/src/instructions.rs Instruction
//@@EXTRACT enum traits/src/error.rs ErrorType
//@@EXTRACT enum traits/src/data.rs SymbolListPart

#[verifier::external_trait_specification]
pub trait ExStdError: Debug + Display {
    type ExternalTraitSpecificationFor: std::error::Error;
}

// ---------------------------------------------------------------------------------
// RuntimeError: external type with an assumed contract (traits/src/error.rs).
// The message text is dropped; `code()` and `from_data()` are the two observable facts.
// ---------------------------------------------------------------------------------
#[verifier::external_body]
#[verifier::accept_recursive_types(Source)]
pub struct RuntimeError<Source: 'static + std::error::Error> { _p: std::marker::PhantomData<Source> }

pub uninterp spec fn err_from<Source: 'static + std::error::Error>(s: Source) -> RuntimeError<Source>;

impl<Source: 'static + std::error::Error> RuntimeError<Source> {
    pub uninterp spec fn code(&self) -> ErrorType;
    /// true iff the error wraps an error returned by the data object (`From<Source>`)
    pub uninterp spec fn from_data(&self) -> bool;

    #[verifier::external_body]
    pub fn new(message: &str) -> (r: Self)
        ensures r.code() == ErrorType::Unknown, !r.from_data()
    { unimplemented!() }

    #[verifier::external_body]
    pub fn new_message(message: String) -> (r: Self)
        ensures r.code() == ErrorType::Unknown, !r.from_data()
    { unimplemented!() }

    #[verifier::external_body]
    pub fn unsupported_types() -> (r: Self)
        ensures r.code() == ErrorType::UnsupportedOpTypes, !r.from_data()
    { unimplemented!() }

    #[verifier::external_body]
    pub fn get_type(&self) -> (r: ErrorType)
        ensures r == self.code()
    { unimplemented!() }
}

pub broadcast axiom fn axiom_err_from_code<Source: 'static + std::error::Error>(s: Source)
    ensures
        #![trigger err_from(s)]
        err_from(s).code() == ErrorType::Unknown,
        err_from(s).from_data();

// `?` converting Data::Error into RuntimeError<Data::Error> goes through
// `impl From<Source> for RuntimeError<Source>`; vstd leaves `spec_from` uninterpreted
// except for the identity conversion, so the link is stated here (assumption A-FROM).
pub broadcast axiom fn axiom_spec_from_runtime_error<Source: 'static + std::error::Error>(e: RuntimeError<Source>, s: Source)
    ensures
        #[trigger] vstd::std_specs::control_flow::spec_from::<RuntimeError<Source>, Source>(s, e) ==> e == err_from(s);

impl<Source: 'static + std::error::Error> vstd::std_specs::convert::FromSpecImpl<Source> for RuntimeError<Source> {
    open spec fn obeys_from_spec() -> bool { true }
    open spec fn from_spec(source: Source) -> Self { err_from(source) }
}

impl<Source: 'static + std::error::Error> From<Source> for RuntimeError<Source> {
    #[verifier::external_body]
    fn from(source: Source) -> (r: Self) { unimplemented!() }
}

pub broadcast group group_runtime_error {
    axiom_err_from_code,
    axiom_spec_from_runtime_error,
}

/// mirror of runtime/src/runtime/error.rs::OrNumberError (the impl for Option<T> is extracted)
pub trait OrNumberError<T, Source: 'static + std::error::Error>: Sized {
    spec fn as_option(self) -> Option<T>;
    fn or_num_err(self) -> (r: Result<T, RuntimeError<Source>>)
        ensures
            self.as_option() matches Some(v) ==> r == Ok::<T, RuntimeError<Source>>(v),
            self.as_option() is None ==> (r matches Err(e) && e.code() == ErrorType::Unknown && !e.from_data());
}

// std::cmp::Ordering readers (assumed: their documented meaning)
pub assume_specification [std::cmp::Ordering::is_lt] (o: Ordering) -> (r: bool) ensures r == (o == Ordering::Less);
pub assume_specification [std::cmp::Ordering::is_le] (o: Ordering) -> (r: bool) ensures r == (o == Ordering::Less || o == Ordering::Equal);
pub assume_specification [std::cmp::Ordering::is_gt] (o: Ordering) -> (r: bool) ensures r == (o == Ordering::Greater);
pub assume_specification [std::cmp::Ordering::is_ge] (o: Ordering) -> (r: bool) ensures r == (o == Ordering::Greater || o == Ordering::Equal);

/// stands for every `format!(…)` in the extracted text (rule R2)
#[verifier::external_body]
pub fn verif_msg() -> String { unimplemented!() }

/// stands for `unimplemented!/todo!/unreachable!/panic!` (rule R6): reaching it is an obligation
#[verifier::external_body]
pub fn verif_panic() -> !
    requires false
{ unimplemented!() }

// ---------------------------------------------------------------------------------
// Small traits
// ---------------------------------------------------------------------------------
pub trait TypeConstants: Sized {
    fn zero() -> Self;
    fn one() -> Self;
    fn max_value() -> Self;
}

pub trait GarnishNumber: Sized {
    spec fn plus_spec(self, rhs: Self) -> Option<Self>;
    spec fn subtract_spec(self, rhs: Self) -> Option<Self>;
    spec fn multiply_spec(self, rhs: Self) -> Option<Self>;
    spec fn divide_spec(self, rhs: Self) -> Option<Self>;
    spec fn integer_divide_spec(self, rhs: Self) -> Option<Self>;
    spec fn power_spec(self, rhs: Self) -> Option<Self>;
    spec fn remainder_spec(self, rhs: Self) -> Option<Self>;
    spec fn absolute_value_spec(self) -> Option<Self>;
    spec fn opposite_spec(self) -> Option<Self>;
    spec fn increment_spec(self) -> Option<Self>;
    spec fn decrement_spec(self) -> Option<Self>;
    spec fn bitwise_not_spec(self) -> Option<Self>;
    spec fn bitwise_and_spec(self, rhs: Self) -> Option<Self>;
    spec fn bitwise_or_spec(self, rhs: Self) -> Option<Self>;
    spec fn bitwise_xor_spec(self, rhs: Self) -> Option<Self>;
    spec fn bitwise_shift_left_spec(self, rhs: Self) -> Option<Self>;
    spec fn bitwise_shift_right_spec(self, rhs: Self) -> Option<Self>;

    fn plus(self, rhs: Self) -> (r: Option<Self>) ensures r == self.plus_spec(rhs);
    fn subtract(self, rhs: Self) -> (r: Option<Self>) ensures r == self.subtract_spec(rhs);
    fn multiply(self, rhs: Self) -> (r: Option<Self>) ensures r == self.multiply_spec(rhs);
    fn divide(self, rhs: Self) -> (r: Option<Self>) ensures r == self.divide_spec(rhs);
    fn integer_divide(self, rhs: Self) -> (r: Option<Self>) ensures r == self.integer_divide_spec(rhs);
    fn power(self, rhs: Self) -> (r: Option<Self>) ensures r == self.power_spec(rhs);
    fn remainder(self, rhs: Self) -> (r: Option<Self>) ensures r == self.remainder_spec(rhs);
    fn absolute_value(self) -> (r: Option<Self>) ensures r == self.absolute_value_spec();
    fn opposite(self) -> (r: Option<Self>) ensures r == self.opposite_spec();
    fn increment(self) -> (r: Option<Self>) ensures r == self.increment_spec();
    fn decrement(self) -> (r: Option<Self>) ensures r == self.decrement_spec();
    fn bitwise_not(self) -> (r: Option<Self>) ensures r == self.bitwise_not_spec();
    fn bitwise_and(self, rhs: Self) -> (r: Option<Self>) ensures r == self.bitwise_and_spec(rhs);
    fn bitwise_or(self, rhs: Self) -> (r: Option<Self>) ensures r == self.bitwise_or_spec(rhs);
    fn bitwise_xor(self, rhs: Self) -> (r: Option<Self>) ensures r == self.bitwise_xor_spec(rhs);
    fn bitwise_shift_left(self, rhs: Self) -> (r: Option<Self>) ensures r == self.bitwise_shift_left_spec(rhs);
    fn bitwise_shift_right(self, rhs: Self) -> (r: Option<Self>) ensures r == self.bitwise_shift_right_spec(rhs);
}

//@@EXTRACT enum runtime/src/execute.rs SimpleRuntimeState
//@@EXTRACT struct runtime/src/execute.rs SimpleRuntimeInfo pubfields=1 derive=Clone,Copy
//@@EXTRACT struct traits/src/data.rs Extents pubfields=1

pub trait GarnishDataFactory<Size, Number, Char, Byte, Symbol, Error, SizeIterator, NumberIterator> {
    spec fn size_to_number_spec(from: Size) -> Number;
    spec fn number_to_size_spec(from: Number) -> Option<Size>;

    fn size_to_number(from: Size) -> (r: Number) ensures r == Self::size_to_number_spec(from);
    fn number_to_size(from: Number) -> (r: Option<Size>) ensures r == Self::number_to_size_spec(from);
    fn number_to_char(from: Number) -> Option<Char>;
    fn number_to_byte(from: Number) -> Option<Byte>;
    fn char_to_number(from: Char) -> Option<Number>;
    fn char_to_byte(from: Char) -> Option<Byte>;
    fn byte_to_number(from: Byte) -> Option<Number>;
    fn byte_to_char(from: Byte) -> Option<Char>;
}

// ---------------------------------------------------------------------------------
// Ghost vocabulary of the GarnishData contract (DESIGN.md section 3)
// ---------------------------------------------------------------------------------
pub ghost struct Cell<Sz, N, Sy, C, B> {
    pub ty: GarnishDataType,
    pub num: N,            // Number
    pub sym: Sy,           // Symbol
    pub chr: C,            // Char
    pub byt: B,            // Byte
    pub typ: GarnishDataType, // Type
    pub a: Sz,             // Pair/Concatenation/Range/Slice/Partial: first component; Expression/External: the value
    pub b: Sz,             // second component
    pub items: Seq<Sz>,    // List
    pub chars: Seq<C>,     // CharList
    pub bytes: Seq<B>,     // ByteList
    pub parts: Seq<SymbolListPart<Sy, N>>, // SymbolList
}

pub ghost enum HostCall<Sz, Sy> {
    Defer(Instruction, (GarnishDataType, Sz), (GarnishDataType, Sz)),
    Resolve(Sy),
    Apply(Sz, Sz),
}

/// one entry of the host log: the call and the host's answer (true = handled)
pub ghost struct HostEvent<Sz, Sy> {
    pub call: HostCall<Sz, Sy>,
    pub accepted: bool,
}

pub ghost struct Frame<Sz> {
    pub ret: Sz,
    pub saved_regs: Seq<Sz>,
}

pub ghost struct Building<Sz> {
    pub cap: nat,
    pub items: Seq<Sz>,
}

/// The whole abstract state of a data object.
pub ghost struct St<Sz, N, Sy, C, B> {
    pub cells: Map<Sz, Cell<Sz, N, Sy, C, B>>,   // the data table (values only)
    pub data_len: nat,                           // what get_data_len reports
    pub regs: Seq<Sz>,                           // operand ("register") stack, top = last
    pub values: Seq<Sz>,                         // input-value stack
    pub frames: Seq<Frame<Sz>>,                  // call frames
    pub instrs: Seq<(Instruction, Option<Sz>)>,  // instruction table
    pub jumps: Seq<Sz>,                          // jump table
    pub cursor: Sz,                              // instruction cursor
    pub host: Seq<HostEvent<Sz, Sy>>,             // every call that reached a host extension point, in order
    pub building: Map<Sz, Building<Sz>>,         // lists between start_list and end_list
}

/// the data table only grows: every existing cell keeps its content (C15 at trait level)
pub open spec fn grows<Sz, N, Sy, C, B>(o: St<Sz, N, Sy, C, B>, n: St<Sz, N, Sy, C, B>) -> bool {
    (forall|k: Sz| #![trigger o.cells.dom().contains(k)] #![trigger n.cells.dom().contains(k)]
        o.cells.dom().contains(k) ==> n.cells.dom().contains(k) && n.cells[k] == o.cells[k])
    && o.data_len <= n.data_len
}

/// nothing but the data table changed
pub open spec fn only_cells<Sz, N, Sy, C, B>(o: St<Sz, N, Sy, C, B>, n: St<Sz, N, Sy, C, B>) -> bool {
    grows(o, n) && n == (St { cells: n.cells, data_len: n.data_len, ..o })
}

/// the data table grew and the operand stack became `regs`; nothing else changed
pub open spec fn only_cells_regs<Sz, N, Sy, C, B>(o: St<Sz, N, Sy, C, B>, n: St<Sz, N, Sy, C, B>, regs: Seq<Sz>) -> bool {
    grows(o, n) && n == (St { cells: n.cells, data_len: n.data_len, regs: regs, ..o })
}


/// C08: cast combinations the language gives a result to (the table of casting.rs read as the language's definition of
/// `~#`); every other combination is offered to the host
pub open spec fn cast_defined(l: GarnishDataType, r: GarnishDataType) -> bool {
    l == r
    || r == GarnishDataType::CharList || r == GarnishDataType::ByteList || r == GarnishDataType::Symbol
    || r == GarnishDataType::True || r == GarnishDataType::False || l == GarnishDataType::Unit
    || (l == GarnishDataType::CharList && (r == GarnishDataType::Number || r == GarnishDataType::Char || r == GarnishDataType::List))
    || (l == GarnishDataType::Number && (r == GarnishDataType::Char || r == GarnishDataType::Byte))
    || (l == GarnishDataType::Char && (r == GarnishDataType::Number || r == GarnishDataType::Byte))
    || (l == GarnishDataType::Byte && (r == GarnishDataType::Number || r == GarnishDataType::Char))
    || (r == GarnishDataType::List && (l == GarnishDataType::SymbolList || l == GarnishDataType::Range || l == GarnishDataType::ByteList
            || l == GarnishDataType::Concatenation || l == GarnishDataType::Slice))
}

/// the type a cast targets: a Type value on the right names it, any other value stands for its own type
pub open spec fn cast_target<Sz, N, Sy, C, B>(o: St<Sz, N, Sy, C, B>) -> GarnishDataType {
    if o.cells[opnd_r(o)].ty == GarnishDataType::Type { o.cells[opnd_r(o)].typ } else { o.cells[opnd_r(o)].ty }
}

/// everything but the value table and the lists under construction is as in `o`
pub open spec fn same_but_cells_building<Sz, N, Sy, C, B>(o: St<Sz, N, Sy, C, B>, n: St<Sz, N, Sy, C, B>) -> bool {
    grows(o, n) && n.regs == o.regs && n.values == o.values && n.frames == o.frames && n.instrs == o.instrs && n.jumps == o.jumps
    && n.cursor == o.cursor && n.host == o.host
}


// ---------------------------------------------------------------------------------
// Property-level vocabulary, written from the property statements (not from the code)
// ---------------------------------------------------------------------------------

/// C06: an instruction that pops `pops` operands and leaves exactly one result; the untouched
/// prefix of the operand stack is *equal*, values / frames / program tables are unchanged.
pub open spec fn op_effect<Sz, N, Sy, C, B>(o: St<Sz, N, Sy, C, B>, n: St<Sz, N, Sy, C, B>, pops: nat) -> bool {
    &&& o.regs.len() >= pops
    &&& grows(o, n)
    &&& n.regs.len() == o.regs.len() - pops + 1
    &&& n.regs.drop_last() =~= o.regs.take(o.regs.len() - pops)
    &&& n == (St { cells: n.cells, data_len: n.data_len, regs: n.regs, host: n.host, ..o })
}

/// C06: a call - `pops` operands removed, one input value pushed, one frame pushed that records the
/// operand stack below the operands (what end_expression restores); nothing is left for the caller yet
pub open spec fn call_effect<Sz, N, Sy, C, B>(o: St<Sz, N, Sy, C, B>, n: St<Sz, N, Sy, C, B>, pops: nat) -> bool {
    &&& o.regs.len() >= pops
    &&& grows(o, n)
    &&& o.regs.take(o.regs.len() - pops).is_prefix_of(n.regs)
    &&& n.values.len() == o.values.len() + 1
    &&& n.values.drop_last() =~= o.values
    &&& n.frames.len() == o.frames.len() + 1
    &&& n.frames.drop_last() =~= o.frames
    &&& n.frames.last().saved_regs =~= o.regs.take(o.regs.len() - pops)
    &&& n == (St { cells: n.cells, data_len: n.data_len, regs: n.regs, values: n.values, frames: n.frames, ..o })
}

/// the cell on top of the operand stack
pub open spec fn top<Sz, N, Sy, C, B>(n: St<Sz, N, Sy, C, B>) -> Cell<Sz, N, Sy, C, B> {
    n.cells[n.regs.last()]
}

/// the top of the operand stack is a valid cell of type `t`
pub open spec fn top_is<Sz, N, Sy, C, B>(n: St<Sz, N, Sy, C, B>, t: GarnishDataType) -> bool {
    n.regs.len() > 0 && n.cells.contains_key(n.regs.last()) && n.cells[n.regs.last()].ty == t
}

/// C09 at the instruction: `Some(v)` becomes the number v, `None` becomes unit
pub open spec fn top_is_result<Sz, N, Sy, C, B>(n: St<Sz, N, Sy, C, B>, x: Option<N>) -> bool {
    match x {
        Some(v) => top_is(n, GarnishDataType::Number) && top(n).num == v,
        None => top_is(n, GarnishDataType::Unit),
    }
}

/// C08: the operation was offered to the host exactly once, as `call`; if the host declined the
/// result is unit (if it accepted, `op_effect` already says the host's single result is the top)
pub open spec fn deferred_one<Sz, N, Sy, C, B>(o: St<Sz, N, Sy, C, B>, n: St<Sz, N, Sy, C, B>) -> bool {
    &&& n.host.len() == o.host.len() + 1
    &&& n.host.drop_last() =~= o.host
    &&& (!n.host.last().accepted ==> top_is(n, GarnishDataType::Unit))
}

pub open spec fn deferred_once<Sz, N, Sy, C, B>(o: St<Sz, N, Sy, C, B>, n: St<Sz, N, Sy, C, B>, call: HostCall<Sz, Sy>) -> bool {
    deferred_one(o, n) && n.host.last().call == call
}

/// C10: exactly two values are false - unit and `$!`
pub open spec fn truthy(t: GarnishDataType) -> bool {
    t != GarnishDataType::False && t != GarnishDataType::Unit
}

/// C06: the fixed pop count of every instruction that pops n operands and pushes exactly one result
/// without touching the input-value stack or the frame chain (written from the instruction set, not the code)
pub open spec fn fixed_pops(i: Instruction) -> Option<nat> {
    match i {
        Instruction::Add | Instruction::Subtract | Instruction::Multiply | Instruction::Divide | Instruction::IntegerDivide
        | Instruction::Power | Instruction::Remainder | Instruction::BitwiseAnd | Instruction::BitwiseOr | Instruction::BitwiseXor
        | Instruction::BitwiseShiftLeft | Instruction::BitwiseShiftRight | Instruction::Xor | Instruction::TypeEqual
        | Instruction::ApplyType | Instruction::Equal | Instruction::NotEqual | Instruction::LessThan | Instruction::LessThanOrEqual
        | Instruction::GreaterThan | Instruction::GreaterThanOrEqual | Instruction::MakePair | Instruction::Access
        | Instruction::MakeRange | Instruction::MakeStartExclusiveRange | Instruction::MakeEndExclusiveRange
        | Instruction::MakeExclusiveRange | Instruction::Concat | Instruction::PartialApply => Some(2nat),
        Instruction::Opposite | Instruction::AbsoluteValue | Instruction::BitwiseNot | Instruction::Not | Instruction::Tis
        | Instruction::TypeOf | Instruction::AccessLeftInternal | Instruction::AccessRightInternal
        | Instruction::AccessLengthInternal => Some(1nat),
        Instruction::PutValue | Instruction::Put | Instruction::Resolve => Some(0nat),
        _ => None,
    }
}

/// op_effect, except that the instruction cursor may have moved
pub open spec fn op_effect_mod_cursor<Sz, N, Sy, C, B>(o: St<Sz, N, Sy, C, B>, n: St<Sz, N, Sy, C, B>, pops: nat) -> bool {
    op_effect(o, St { cursor: o.cursor, ..n }, pops)
}

/// C12: operand type pairs on which an order is defined (slices of char/byte lists are compared too)
pub open spec fn comparable(l: GarnishDataType, r: GarnishDataType) -> bool {
    (l == GarnishDataType::Number && r == GarnishDataType::Number) || (l == GarnishDataType::Char && r == GarnishDataType::Char)
    || (l == GarnishDataType::Byte && r == GarnishDataType::Byte) || (l == GarnishDataType::CharList && r == GarnishDataType::CharList)
    || (l == GarnishDataType::ByteList && r == GarnishDataType::ByteList) || (l == GarnishDataType::Slice && r == GarnishDataType::Slice)
}


// ---------------------------------------------------------------------------------
// Iterators handed out by the data object (C11, C16): an iterator is abstracted by the
// sequence it has still to yield; `next` takes the head (law assumed per iterator type in axioms()).
// ---------------------------------------------------------------------------------
pub uninterp spec fn rem<I: Iterator>(i: I) -> Seq<I::Item>;

#[verifier::prophetic]
pub open spec fn next_law<I: Iterator>() -> bool {
    forall|i: &mut I, r: Option<I::Item>| #![trigger call_ensures(<I as Iterator>::next, (i,), r)] call_ensures(<I as Iterator>::next, (i,), r) ==>
        (rem(*i).len() == 0 ==> r is None && rem(*final(i)).len() == 0)
        && (rem(*i).len() > 0 ==> r == Some(rem(*i)[0]) && rem(*final(i)) == rem(*i).skip(1))
}

/// `Clone` returns an equal value
pub open spec fn clone_id<T: Clone>() -> bool {
    forall|a: T, b: T| #![trigger call_ensures(<T as Clone>::clone, (&a,), b)] call_ensures(<T as Clone>::clone, (&a,), b) ==> a == b
}

/// C11: two sequences are equal element-wise, in the element type's own equality
pub open spec fn seq_eq<T: PartialEq>(a: Seq<T>, b: Seq<T>) -> bool {
    a.len() == b.len() && forall|i: int| 0 <= i < a.len() ==> #[trigger] a[i].eq_spec(&b[i])
}

/// a0 b0 a1 b1 ... for the first n positions
pub open spec fn zipn<T>(a: Seq<T>, b: Seq<T>, n: nat) -> Seq<T>
    decreases n
{
    if n == 0 { Seq::empty() } else { zipn(a, b, (n - 1) as nat).push(a[n - 1]).push(b[n - 1]) }
}

/// the items of two sequences pairwise, as far as both have items (what equality queues for later comparison)
pub open spec fn zip2<T>(a: Seq<T>, b: Seq<T>) -> Seq<T> {
    zipn(a, b, if a.len() <= b.len() { a.len() } else { b.len() })
}

pub broadcast proof fn lemma_zipn_len<T>(a: Seq<T>, b: Seq<T>, n: nat)
    ensures #[trigger] zipn(a, b, n).len() == 2 * n
    decreases n
{
    if n > 0 { lemma_zipn_len(a, b, (n - 1) as nat); }
}

// ---------------------------------------------------------------------------------
// C16 (concatenations): the flat item sequence of a concatenation as the walker of traits/src/helpers/concatenation.rs
// is meant to visit it - written from the statement ("lists and concatenations as the flat sequences of their items")
// ---------------------------------------------------------------------------------
pub open spec fn cat_opt<T>(v: Seq<T>, t: Option<Seq<T>>) -> Option<Seq<T>> {
    match t { Some(x) => Some(v + x), None => None }
}

/// work off a stack of pending values (top = last): a concatenation is replaced by its two sides (`rev`: right side first),
/// a list contributes its items, any other value itself. `None`: not finished within `fuel` steps
pub open spec fn walk<Sz, N, Sy, C, B>(cells: Map<Sz, Cell<Sz, N, Sy, C, B>>, work: Seq<Sz>, rev: bool, fuel: nat) -> Option<Seq<Sz>>
    decreases fuel
{
    if work.len() == 0 { Some(Seq::empty()) }
    else if fuel == 0 { None }
    else {
        let r = work.last(); let rest = work.drop_last();
        if cells[r].ty == GarnishDataType::Concatenation {
            let first = if rev { cells[r].b } else { cells[r].a };
            let second = if rev { cells[r].a } else { cells[r].b };
            walk(cells, rest.push(second).push(first), rev, (fuel - 1) as nat)
        } else {
            let here = if cells[r].ty == GarnishDataType::List { cells[r].items } else { seq![r] };
            cat_opt(here, walk(cells, rest, rev, (fuel - 1) as nat))
        }
    }
}

/// the callback's answer is a function `m` of (position, item) and it leaves the data object as it was
#[verifier::prophetic]
pub open spec fn cb_model<D: GarnishData, F: FnMut(&mut D, D::Number, D::Size) -> Result<Option<D::Size>, RuntimeError<D::Error>>>(
    f: F, m: spec_fn(int, D::Size) -> Option<D::Size>, cells: Map<D::Size, Cell<D::Size, D::Number, D::Symbol, D::Char, D::Byte>>) -> bool {
    forall|d: &mut D, i: D::Number, a: D::Size, rr: Result<Option<D::Size>, RuntimeError<D::Error>>| #![trigger f.ensures((d, i, a), rr)]
        d.st().cells == cells && f.ensures((d, i, a), rr) ==> final(d).st() == d.st() && (rr matches Ok(x) ==> (D::is_idx(i) ==> x == m(D::nidx(i), a)))
}

/// `g` reads the two sides of a concatenation, in the order `rev` says
pub open spec fn get_model<D: GarnishData, G: Fn(&D, D::Size) -> Result<(D::Size, D::Size), D::Error>>(
    g: G, rev: bool, cells: Map<D::Size, Cell<D::Size, D::Number, D::Symbol, D::Char, D::Byte>>) -> bool {
    forall|d: &D, a: D::Size, rr: Result<(D::Size, D::Size), D::Error>| #![trigger g.ensures((d, a), rr)]
        d.st().cells == cells && g.ensures((d, a), rr) ==> (rr matches Ok(p) ==> cells.contains_key(a) && cells[a].ty == GarnishDataType::Concatenation
            && p == (if rev { (cells[a].b, cells[a].a) } else { (cells[a].a, cells[a].b) }))
}

/// trigger carrier: a caller names the callback model it wants the walker's postcondition for by asserting `pick(m)`
pub open spec fn pick<T>(m: T) -> bool { true }

/// the walk stops at the first position whose item the callback answers; otherwise it has seen all `n` items
pub open spec fn first_hit<Sz>(m: spec_fn(int, Sz) -> Option<Sz>, flat: Seq<Sz>, res: Option<Sz>, n: nat) -> bool {
    (res is None ==> n == flat.len() && forall|j: int| 0 <= j < flat.len() ==> (#[trigger] m(j, flat[j])) is None)
    && (res is Some ==> exists|p: int| 0 <= p < flat.len() && #[trigger] m(p, flat[p]) == res && forall|j: int| 0 <= j < p ==> (#[trigger] m(j, flat[j])) is None)
}

/// what a non-concatenation value contributes to the flat sequence
pub open spec fn here<Sz, N, Sy, C, B>(cells: Map<Sz, Cell<Sz, N, Sy, C, B>>, r: Sz) -> Seq<Sz> {
    if cells[r].ty == GarnishDataType::List { cells[r].items } else { seq![r] }
}

/// loop invariant of the walker: after `k` steps the items `vis` have been produced and `work` is still pending
pub open spec fn walked<Sz, N, Sy, C, B>(cells: Map<Sz, Cell<Sz, N, Sy, C, B>>, w0: Seq<Sz>, rev: bool, vis: Seq<Sz>, work: Seq<Sz>, k: nat) -> bool {
    (forall|f: nat| f < k ==> (#[trigger] walk(cells, w0, rev, f)) is None)
    && (forall|f: nat| f >= k ==> #[trigger] walk(cells, w0, rev, f) == cat_opt(vis, walk(cells, work, rev, (f - k) as nat)))
}

pub open spec fn none_upto<Sz>(m: spec_fn(int, Sz) -> Option<Sz>, vis: Seq<Sz>) -> bool {
    forall|j: int| 0 <= j < vis.len() ==> (#[trigger] m(j, vis[j])) is None
}

pub proof fn lemma_walked_init<Sz, N, Sy, C, B>(cells: Map<Sz, Cell<Sz, N, Sy, C, B>>, addr: Sz, rev: bool, first: Sz, second: Sz)
    requires cells[addr].ty == GarnishDataType::Concatenation,
        first == (if rev { cells[addr].b } else { cells[addr].a }), second == (if rev { cells[addr].a } else { cells[addr].b }),
    ensures walked(cells, seq![addr], rev, Seq::empty(), seq![second, first], 1)
{
    let w0 = seq![addr];
    assert(w0.drop_last().push(second).push(first) =~= seq![second, first]);
    assert forall|f: nat| f >= 1 implies #[trigger] walk(cells, w0, rev, f) == cat_opt(Seq::<Sz>::empty(), walk(cells, seq![second, first], rev, (f - 1) as nat)) by {
        let t = walk(cells, seq![second, first], rev, (f - 1) as nat);
        match t { Some(x) => { assert(Seq::<Sz>::empty() + x =~= x); } None => {} }
    }
}

pub proof fn lemma_walked_concat<Sz, N, Sy, C, B>(cells: Map<Sz, Cell<Sz, N, Sy, C, B>>, w0: Seq<Sz>, rev: bool, vis: Seq<Sz>, wb: Seq<Sz>, k: nat, first: Sz, second: Sz)
    requires walked(cells, w0, rev, vis, wb, k), wb.len() > 0, cells[wb.last()].ty == GarnishDataType::Concatenation,
        first == (if rev { cells[wb.last()].b } else { cells[wb.last()].a }), second == (if rev { cells[wb.last()].a } else { cells[wb.last()].b }),
    ensures walked(cells, w0, rev, vis, wb.drop_last().push(second).push(first), k + 1)
{
    let wn = wb.drop_last().push(second).push(first);
    assert forall|f: nat| f >= k + 1 implies #[trigger] walk(cells, w0, rev, f) == cat_opt(vis, walk(cells, wn, rev, (f - (k + 1)) as nat)) by {
        assert(walk(cells, w0, rev, f) == cat_opt(vis, walk(cells, wb, rev, (f - k) as nat)));
        assert(walk(cells, wb, rev, (f - k) as nat) == walk(cells, wn, rev, (f - k - 1) as nat));
    }
    assert forall|f: nat| f < k + 1 implies (#[trigger] walk(cells, w0, rev, f)) is None by {
        if f == k { assert(walk(cells, w0, rev, f) == cat_opt(vis, walk(cells, wb, rev, 0))); }
    }
}

pub proof fn lemma_walked_value<Sz, N, Sy, C, B>(cells: Map<Sz, Cell<Sz, N, Sy, C, B>>, w0: Seq<Sz>, rev: bool, vis: Seq<Sz>, wb: Seq<Sz>, k: nat)
    requires walked(cells, w0, rev, vis, wb, k), wb.len() > 0, cells[wb.last()].ty != GarnishDataType::Concatenation,
    ensures walked(cells, w0, rev, vis + here(cells, wb.last()), wb.drop_last(), k + 1)
{
    let wn = wb.drop_last();
    let h = here(cells, wb.last());
    assert forall|f: nat| f >= k + 1 implies #[trigger] walk(cells, w0, rev, f) == cat_opt(vis + h, walk(cells, wn, rev, (f - (k + 1)) as nat)) by {
        assert(walk(cells, w0, rev, f) == cat_opt(vis, walk(cells, wb, rev, (f - k) as nat)));
        let t = walk(cells, wn, rev, (f - k - 1) as nat);
        assert(walk(cells, wb, rev, (f - k) as nat) == cat_opt(h, t));
        match t { Some(x) => { assert(vis + (h + x) =~= (vis + h) + x); } None => {} }
    }
    assert forall|f: nat| f < k + 1 implies (#[trigger] walk(cells, w0, rev, f)) is None by {
        if f == k { assert(walk(cells, w0, rev, f) == cat_opt(vis, walk(cells, wb, rev, 0))); }
    }
}

pub proof fn lemma_walked_prefix<Sz, N, Sy, C, B>(cells: Map<Sz, Cell<Sz, N, Sy, C, B>>, w0: Seq<Sz>, rev: bool, vis: Seq<Sz>, work: Seq<Sz>, k: nat, fuel: nat, flat: Seq<Sz>)
    requires walked(cells, w0, rev, vis, work, k), walk(cells, w0, rev, fuel) == Some(flat),
    ensures vis.is_prefix_of(flat), work.len() == 0 ==> flat == vis,
{
    if fuel < k { assert(walk(cells, w0, rev, fuel) is None); }
    else {
        assert(walk(cells, w0, rev, fuel) == cat_opt(vis, walk(cells, work, rev, (fuel - k) as nat)));
        let x = walk(cells, work, rev, (fuel - k) as nat)->Some_0;
        assert(flat == vis + x);
        if work.len() == 0 { assert(vis + Seq::<Sz>::empty() =~= vis); }
    }
}

pub proof fn lemma_none_append<Sz>(m: spec_fn(int, Sz) -> Option<Sz>, vo: Seq<Sz>, items: Seq<Sz>)
    requires none_upto(m, vo), forall|j: int| 0 <= j < items.len() ==> m(vo.len() + j, #[trigger] items[j]) is None,
    ensures none_upto(m, vo + items)
{
    let v = vo + items;
    assert forall|j: int| 0 <= j < v.len() implies (#[trigger] m(j, v[j])) is None by {
        if j < vo.len() { assert(m(j, vo[j]) is None); }
        else { let jj = j - vo.len(); assert(v[j] == items[jj]); assert(m(vo.len() + jj, items[jj]) is None); }
    }
}

pub proof fn lemma_first_hit_some<Sz>(m: spec_fn(int, Sz) -> Option<Sz>, flat: Seq<Sz>, pre: Seq<Sz>, p: int, res: Option<Sz>, n: nat)
    requires pre.is_prefix_of(flat), 0 <= p < pre.len(), m(p, pre[p]) == res, res is Some, forall|j: int| 0 <= j < p ==> (#[trigger] m(j, pre[j])) is None,
    ensures first_hit(m, flat, res, n)
{
    assert(flat[p] == pre[p]);
    assert(m(p, flat[p]) == res);
    assert forall|j: int| 0 <= j < p implies (#[trigger] m(j, flat[j])) is None by { assert(flat[j] == pre[j]); assert(m(j, pre[j]) is None); }
}

/// C16 for concatenations: `v` is the value of an item keyed by `sym` among the flat items (visited in direction `rev`), or no item is
pub open spec fn key_among<Sz, N, Sy, C, B>(cells: Map<Sz, Cell<Sz, N, Sy, C, B>>, addr: Sz, sym: Sy, v: Option<Sz>, rev: bool) -> bool {
    forall|fuel: nat| #![trigger walk(cells, seq![addr], rev, fuel)]
        walk(cells, seq![addr], rev, fuel) matches Some(flat) ==>
            (v is None ==> forall|j: int| 0 <= j < flat.len() ==> (#[trigger] assoc_value(cells, flat[j], sym)) is None)
            && (v is Some ==> exists|p: int| 0 <= p < flat.len() && #[trigger] assoc_value(cells, flat[p], sym) == v)
}

/// C16 for concatenations: `v` is item `k` of the flat sequence of the concatenation's items, 'no item' when `k` is past its end
pub open spec fn flat_item_at<Sz, N, Sy, C, B>(cells: Map<Sz, Cell<Sz, N, Sy, C, B>>, addr: Sz, k: int, v: Option<Sz>) -> bool {
    forall|fuel: nat| #![trigger walk(cells, seq![addr], false, fuel)]
        walk(cells, seq![addr], false, fuel) matches Some(flat) ==> v == (if 0 <= k < flat.len() { Some(flat[k]) } else { None::<Sz> })
}

/// C12: the order of two lengths
pub open spec fn nat_cmp(a: nat, b: nat) -> Ordering {
    if a < b { Ordering::Less } else if a == b { Ordering::Equal } else { Ordering::Greater }
}

/// C12: lexicographic order of two sequences from position k on, the shorter prefix first; `None` as soon as
/// two elements are incomparable (written from the property statement; the element order is T's own)
pub open spec fn lex_cmp<T: PartialOrd>(ls: Seq<T>, rs: Seq<T>, k: int) -> Option<Ordering>
    decreases ls.len() - k
{
    if k < 0 { None }
    else if k >= ls.len() || k >= rs.len() { Some(nat_cmp(ls.len(), rs.len())) }
    else { match ls[k].partial_cmp_spec(&rs[k]) { Some(Ordering::Equal) => lex_cmp(ls, rs, k + 1), Some(o) => Some(o), None => None } }
}

/// `s` is what the length reader `len_f` and the element getter `get_f` present for the value at `a` in state `st`
pub open spec fn seq_model<Data: GarnishData, T, GetFunc: Fn(&Data, Data::Size, Data::Number) -> Result<T, Data::Error>, LenFunc: Fn(&Data, Data::Size) -> Result<Data::Size, Data::Error>>(
    get_f: GetFunc, len_f: LenFunc, st: St<Data::Size, Data::Number, Data::Symbol, Data::Char, Data::Byte>, a: Data::Size, s: Seq<T>) -> bool {
    (forall|d: &Data, rr: Result<Data::Size, Data::Error>| #![trigger len_f.ensures((d, a), rr)]
        d.st() == st && len_f.ensures((d, a), rr) ==> (rr matches Ok(n) ==> Data::sv(n) == s.len()))
    && (forall|d: &Data, i: Data::Number, rr: Result<T, Data::Error>| #![trigger get_f.ensures((d, a, i), rr)]
        d.st() == st && get_f.ensures((d, a, i), rr) && 0 <= Data::nidx(i) < s.len() ==> (rr matches Ok(v) ==> v == s[Data::nidx(i)]))
}

/// lifting a sequence into `Option` (what `get_char_list_item` / `get_byte_list_item` hand to cmp_list) keeps the order
pub proof fn lemma_lex_some<T: PartialOrd>(l: Seq<T>, r: Seq<T>, k: int)
    ensures lex_cmp(l.map_values(|x: T| Some(x)), r.map_values(|x: T| Some(x)), k) == lex_cmp(l, r, k)
    decreases l.len() - k
{
    if k >= 0 && k < l.len() && k < r.len() {
        lemma_lex_some(l, r, k + 1);
    }
}

/// C12: how each of the four instructions reads one Ordering
pub open spec fn reads_lt(o: Ordering) -> bool { o == Ordering::Less }
pub open spec fn reads_le(o: Ordering) -> bool { o == Ordering::Less || o == Ordering::Equal }
pub open spec fn reads_gt(o: Ordering) -> bool { o == Ordering::Greater }
pub open spec fn reads_ge(o: Ordering) -> bool { o == Ordering::Greater || o == Ordering::Equal }

// ---------------------------------------------------------------------------------
// C12: the relational half of the statement as lemmas over `lex_cmp` and the four readings
// ---------------------------------------------------------------------------------
pub open spec fn ord_rev(o: Ordering) -> Ordering {
    match o { Ordering::Less => Ordering::Greater, Ordering::Equal => Ordering::Equal, Ordering::Greater => Ordering::Less }
}
pub open spec fn ord_rev_opt(o: Option<Ordering>) -> Option<Ordering> { match o { Some(x) => Some(ord_rev(x)), None => None } }

/// exactly one of `a < b`, `a == b`, `a > b` holds; `a <= b` is the negation of `a > b`, `a >= b` of `a < b`; and `a < b` iff `b > a`
/// (the four instructions are proved to be these four readings of one Ordering)
//@@LEMMA C12
pub proof fn lemma_readings_of_one_ordering(o: Ordering)
    ensures
        (reads_lt(o) && o != Ordering::Equal && !reads_gt(o)) || (!reads_lt(o) && o == Ordering::Equal && !reads_gt(o)) || (!reads_lt(o) && o != Ordering::Equal && reads_gt(o)),
        reads_le(o) == !reads_gt(o), reads_ge(o) == !reads_lt(o),
        reads_lt(o) == reads_gt(ord_rev(o)), reads_le(o) == reads_ge(ord_rev(o)),
{
}

/// swapping the operands reverses the lexicographic order, provided the element order does
//@@LEMMA C12
pub proof fn lemma_lex_cmp_antisymmetric<T: PartialOrd>(ls: Seq<T>, rs: Seq<T>, k: int)
    requires forall|x: T, y: T| #![trigger x.partial_cmp_spec(&y)] y.partial_cmp_spec(&x) == ord_rev_opt(x.partial_cmp_spec(&y)),
    ensures lex_cmp(rs, ls, k) == ord_rev_opt(lex_cmp(ls, rs, k))
    decreases ls.len() - k
{
    if k >= 0 && k < ls.len() && k < rs.len() {
        lemma_lex_cmp_antisymmetric(ls, rs, k + 1);
    }
}

/// `a < b` and `b < c` give `a < c` in the lexicographic order, provided the element order is a strict order whose equal
/// elements are interchangeable (numbers: K1's `cmp_transitive`; characters and bytes: their natural order, assumed)
//@@LEMMA C12
pub proof fn lemma_lex_cmp_transitive<T: PartialOrd>(a: Seq<T>, b: Seq<T>, c: Seq<T>, k: int)
    requires
        forall|x: T, y: T, z: T| #![trigger x.partial_cmp_spec(&y), y.partial_cmp_spec(&z)]
            x.partial_cmp_spec(&y) == Some(Ordering::Less) && y.partial_cmp_spec(&z) == Some(Ordering::Less) ==> x.partial_cmp_spec(&z) == Some(Ordering::Less),
        forall|x: T, y: T, z: T| #![trigger x.partial_cmp_spec(&y), y.partial_cmp_spec(&z)]
            x.partial_cmp_spec(&y) == Some(Ordering::Equal) ==> x.partial_cmp_spec(&z) == y.partial_cmp_spec(&z),
        forall|x: T, y: T, z: T| #![trigger x.partial_cmp_spec(&y), y.partial_cmp_spec(&z)]
            y.partial_cmp_spec(&z) == Some(Ordering::Equal) ==> x.partial_cmp_spec(&y) == x.partial_cmp_spec(&z),
        lex_cmp(a, b, k) == Some(Ordering::Less), lex_cmp(b, c, k) == Some(Ordering::Less),
    ensures lex_cmp(a, c, k) == Some(Ordering::Less)
    decreases a.len() - k
{
    if k >= 0 && k < a.len() && k < b.len() && k < c.len() {
        let ab = a[k].partial_cmp_spec(&b[k]); let bc = b[k].partial_cmp_spec(&c[k]);
        if ab == Some(Ordering::Equal) && bc == Some(Ordering::Equal) {
            lemma_lex_cmp_transitive(a, b, c, k + 1);
        }
    }
}

/// which of the four range instructions `make_range_internal` is running
pub open spec fn range_instruction(start_exclusive: bool, end_exclusive: bool) -> Instruction {
    if start_exclusive { if end_exclusive { Instruction::MakeExclusiveRange } else { Instruction::MakeStartExclusiveRange } }
    else { if end_exclusive { Instruction::MakeEndExclusiveRange } else { Instruction::MakeRange } }
}

/// left operand types for which indexing by a number has a defined result
pub open spec fn indexable_by_number(t: GarnishDataType) -> bool {
    t == GarnishDataType::Pair || t == GarnishDataType::List || t == GarnishDataType::CharList || t == GarnishDataType::ByteList
    || t == GarnishDataType::SymbolList || t == GarnishDataType::Range || t == GarnishDataType::Slice || t == GarnishDataType::Concatenation
}

/// left operand types for which a look-up by symbol has a defined result
pub open spec fn indexable_by_symbol(t: GarnishDataType) -> bool {
    t == GarnishDataType::Pair || t == GarnishDataType::List || t == GarnishDataType::Slice || t == GarnishDataType::Concatenation
}

/// second operand from the top / top operand of the stack before the instruction
pub open spec fn opnd_l<Sz, N, Sy, C, B>(o: St<Sz, N, Sy, C, B>) -> Sz { o.regs[o.regs.len() - 2] }
pub open spec fn opnd_r<Sz, N, Sy, C, B>(o: St<Sz, N, Sy, C, B>) -> Sz { o.regs[o.regs.len() - 1] }

/// effect of one call that reached a host extension point
pub open spec fn host_effect<Sz, N, Sy, C, B>(o: St<Sz, N, Sy, C, B>, n: St<Sz, N, Sy, C, B>, call: HostCall<Sz, Sy>, accepted: bool) -> bool {
    grows(o, n)
    && n == (St { cells: n.cells, data_len: n.data_len, regs: n.regs, host: o.host.push(HostEvent { call: call, accepted: accepted }), ..o })
    && (accepted ==> n.regs.len() == o.regs.len() + 1 && n.regs.drop_last() =~= o.regs && n.cells.contains_key(n.regs.last()))
    && (!accepted ==> n.regs == o.regs)
}

/// `Some(v)` iff `item` is a pair whose left is the symbol `s`; `v` is that pair's right
pub open spec fn assoc_value<Sz, N, Sy, C, B>(cells: Map<Sz, Cell<Sz, N, Sy, C, B>>, item: Sz, s: Sy) -> Option<Sz> {
    if cells.contains_key(item) && cells[item].ty == GarnishDataType::Pair
        && cells.contains_key(cells[item].a) && cells[cells[item].a].ty == GarnishDataType::Symbol
        && cells[cells[item].a].sym == s
    { Some(cells[item].b) } else { None }
}


// ---------------------------------------------------------------------------------
// C11: one step of structural equality, written from the property statement: the verdict for the two
// values themselves and the pairs of sub-values that still have to be equal.
// ---------------------------------------------------------------------------------
/// a range bound: both absent (unit) or both numbers that are numerically equal
pub open spec fn bound_eq<D: GarnishData>(cells: Map<D::Size, Cell<D::Size, D::Number, D::Symbol, D::Char, D::Byte>>, x: D::Size, y: D::Size) -> bool {
    (cells[x].ty == GarnishDataType::Unit && cells[y].ty == GarnishDataType::Unit)
    || (cells[x].ty == GarnishDataType::Number && cells[y].ty == GarnishDataType::Number && D::num_eq(cells[x].num, cells[y].num))
}

/// the flat item sequence of a list or a concatenation
pub open spec fn flat_items<D: GarnishData>(cells: Map<D::Size, Cell<D::Size, D::Number, D::Symbol, D::Char, D::Byte>>, a: D::Size) -> Seq<D::Size> {
    if cells[a].ty == GarnishDataType::List { cells[a].items } else { D::concat_flat(cells, a) }
}

pub open spec fn is_seq_ty(t: GarnishDataType) -> bool { t == GarnishDataType::List || t == GarnishDataType::Concatenation }

pub open spec fn deq<D: GarnishData>(cells: Map<D::Size, Cell<D::Size, D::Number, D::Symbol, D::Char, D::Byte>>, l: D::Size, r: D::Size) -> (bool, Seq<D::Size>) {
    let cl = cells[l]; let cr = cells[r]; let none = Seq::<D::Size>::empty();
    if is_seq_ty(cl.ty) && is_seq_ty(cr.ty) {
        // lists and concatenations: the flat sequences of their items, pairwise
        (flat_items::<D>(cells, l).len() == flat_items::<D>(cells, r).len(), zip2(flat_items::<D>(cells, l), flat_items::<D>(cells, r)))
    } else { match (cl.ty, cr.ty) {
        (GarnishDataType::Unit, GarnishDataType::Unit) | (GarnishDataType::True, GarnishDataType::True) | (GarnishDataType::False, GarnishDataType::False) => (true, none),
        (GarnishDataType::Type, GarnishDataType::Type) => (cl.typ == cr.typ, none),
        (GarnishDataType::Expression, GarnishDataType::Expression) | (GarnishDataType::External, GarnishDataType::External) => (cl.a == cr.a, none),
        (GarnishDataType::Symbol, GarnishDataType::Symbol) => (cl.sym == cr.sym, none),
        (GarnishDataType::Char, GarnishDataType::Char) => (cl.chr == cr.chr, none),
        (GarnishDataType::Byte, GarnishDataType::Byte) => (cl.byt == cr.byt, none),
        (GarnishDataType::Number, GarnishDataType::Number) => (D::num_eq(cl.num, cr.num), none),
        // a single character or byte equals the one-element list of it
        (GarnishDataType::Char, GarnishDataType::CharList) => (cr.chars.len() == 1 && cr.chars[0] == cl.chr, none),
        (GarnishDataType::CharList, GarnishDataType::Char) => (cl.chars.len() == 1 && cl.chars[0] == cr.chr, none),
        (GarnishDataType::Byte, GarnishDataType::ByteList) => (cr.bytes.len() == 1 && cr.bytes[0] == cl.byt, none),
        (GarnishDataType::ByteList, GarnishDataType::Byte) => (cl.bytes.len() == 1 && cl.bytes[0] == cr.byt, none),
        // text, byte lists, symbol lists: element-wise
        (GarnishDataType::CharList, GarnishDataType::CharList) => (seq_eq(cl.chars, cr.chars), none),
        (GarnishDataType::ByteList, GarnishDataType::ByteList) => (seq_eq(cl.bytes, cr.bytes), none),
        (GarnishDataType::SymbolList, GarnishDataType::SymbolList) => (seq_eq(cl.parts, cr.parts), none),
        (GarnishDataType::Range, GarnishDataType::Range) => (bound_eq::<D>(cells, cl.a, cr.a) && bound_eq::<D>(cells, cl.b, cr.b), none),
        // pairs: component-wise
        (GarnishDataType::Pair, GarnishDataType::Pair) => (true, seq![cl.a, cr.a, cl.b, cr.b]),
        _ => (false, none),
    } }
}

/// C11: structural equality as the verdict of working off the queue of pending pairs (top = last two) with `deq`:
/// false as soon as one pair differs, true when nothing is pending. `None`: not determined within `fuel` steps,
/// or a slice is met (slices are outside the decided scope).
pub open spec fn weq<D: GarnishData>(cells: Map<D::Size, Cell<D::Size, D::Number, D::Symbol, D::Char, D::Byte>>, w: Seq<D::Size>, fuel: nat) -> Option<bool>
    decreases fuel
{
    if w.len() < 2 { Some(true) }
    else if fuel == 0 { None }
    else {
        let r = w[w.len() - 1]; let l = w[w.len() - 2];
        if cells[l].ty == GarnishDataType::Slice || cells[r].ty == GarnishDataType::Slice { None }
        else if !deq::<D>(cells, l, r).0 { Some(false) }
        else { weq::<D>(cells, w.take(w.len() - 2) + deq::<D>(cells, l, r).1, (fuel - 1) as nat) }
    }
}

// ---------------------------------------------------------------------------------
// C11: symmetry of structural equality, as a lemma over `deq` / `weq`
// ---------------------------------------------------------------------------------
/// the queue with the two sides of every pending pair exchanged
pub open spec fn mirror<T>(w: Seq<T>) -> Seq<T>
    decreases w.len()
{
    if w.len() < 2 { Seq::empty() } else { mirror(w.take(w.len() - 2)).push(w[w.len() - 1]).push(w[w.len() - 2]) }
}

pub proof fn lemma_mirror_zipn<T>(a: Seq<T>, b: Seq<T>, n: nat)
    ensures mirror(zipn(a, b, n)) == zipn(b, a, n)
    decreases n
{
    lemma_zipn_len(a, b, n);
    if n > 0 {
        lemma_mirror_zipn(a, b, (n - 1) as nat);
        lemma_zipn_len(a, b, (n - 1) as nat);
        let z = zipn(a, b, n);
        assert(z.take(z.len() - 2) =~= zipn(a, b, (n - 1) as nat));
    } else {
        assert(mirror(zipn(a, b, 0)) =~= zipn(b, a, 0));
    }
}

pub proof fn lemma_mirror_append<T>(x: Seq<T>, y: Seq<T>)
    requires y.len() % 2 == 0
    ensures mirror(x + y) == mirror(x) + mirror(y)
    decreases y.len()
{
    if y.len() == 0 {
        assert(x + y =~= x);
        assert(mirror(x) + mirror(y) =~= mirror(x));
    } else {
        let w = x + y;
        let y2 = y.take(y.len() - 2);
        assert(w.take(w.len() - 2) =~= x + y2);
        lemma_mirror_append(x, y2);
        assert(mirror(w) == mirror(x + y2).push(y[y.len() - 1]).push(y[y.len() - 2]));
        assert(mirror(y) == mirror(y2).push(y[y.len() - 1]).push(y[y.len() - 2]));
        assert((mirror(x) + mirror(y2)).push(y[y.len() - 1]).push(y[y.len() - 2]) =~= mirror(x) + mirror(y2).push(y[y.len() - 1]).push(y[y.len() - 2]));
    }
}

//@@LEMMA C11
pub proof fn lemma_deq_symmetric<D: GarnishData>(cells: Map<D::Size, Cell<D::Size, D::Number, D::Symbol, D::Char, D::Byte>>, l: D::Size, r: D::Size)
    ensures deq::<D>(cells, l, r).0 == deq::<D>(cells, r, l).0, mirror(deq::<D>(cells, l, r).1) == deq::<D>(cells, r, l).1, deq::<D>(cells, l, r).1.len() % 2 == 0
{
    D::axioms();
    let cl = cells[l]; let cr = cells[r];
    if is_seq_ty(cl.ty) && is_seq_ty(cr.ty) {
        let a = flat_items::<D>(cells, l); let b = flat_items::<D>(cells, r);
        let n: nat = if a.len() <= b.len() { a.len() } else { b.len() };
        lemma_mirror_zipn(a, b, n);
        lemma_zipn_len(a, b, n);
    } else if cl.ty == GarnishDataType::Pair && cr.ty == GarnishDataType::Pair {
        let q = seq![cl.a, cr.a, cl.b, cr.b];
        assert(q.take(2) =~= seq![cl.a, cr.a]);
        assert(seq![cl.a, cr.a].take(0) =~= Seq::<D::Size>::empty());
        assert(mirror(seq![cl.a, cr.a]) =~= seq![cr.a, cl.a]);
        assert(mirror(q) =~= seq![cr.a, cl.a, cr.b, cl.b]);
    } else {
        assert(mirror(Seq::<D::Size>::empty()) =~= Seq::<D::Size>::empty());
        lemma_seq_eq_symmetric_chars::<D>(cl.chars, cr.chars);
        lemma_seq_eq_symmetric_bytes::<D>(cl.bytes, cr.bytes);
        lemma_seq_eq_symmetric_parts::<D>(cl.parts, cr.parts);
    }
}

pub proof fn lemma_seq_eq_symmetric_chars<D: GarnishData>(a: Seq<D::Char>, b: Seq<D::Char>)
    ensures seq_eq(a, b) == seq_eq(b, a)
{
    D::axioms();
    if seq_eq(a, b) { assert forall|i: int| 0 <= i < b.len() implies #[trigger] b[i].eq_spec(&a[i]) by { assert(a[i].eq_spec(&b[i])); } }
    if seq_eq(b, a) { assert forall|i: int| 0 <= i < a.len() implies #[trigger] a[i].eq_spec(&b[i]) by { assert(b[i].eq_spec(&a[i])); } }
}
pub proof fn lemma_seq_eq_symmetric_bytes<D: GarnishData>(a: Seq<D::Byte>, b: Seq<D::Byte>)
    ensures seq_eq(a, b) == seq_eq(b, a)
{
    D::axioms();
    if seq_eq(a, b) { assert forall|i: int| 0 <= i < b.len() implies #[trigger] b[i].eq_spec(&a[i]) by { assert(a[i].eq_spec(&b[i])); } }
    if seq_eq(b, a) { assert forall|i: int| 0 <= i < a.len() implies #[trigger] a[i].eq_spec(&b[i]) by { assert(b[i].eq_spec(&a[i])); } }
}
pub proof fn lemma_seq_eq_symmetric_parts<D: GarnishData>(a: Seq<SymbolListPart<D::Symbol, D::Number>>, b: Seq<SymbolListPart<D::Symbol, D::Number>>)
    ensures seq_eq(a, b) == seq_eq(b, a)
{
    D::axioms();
    if seq_eq(a, b) { assert forall|i: int| 0 <= i < b.len() implies #[trigger] b[i].eq_spec(&a[i]) by { assert(a[i].eq_spec(&b[i])); } }
    if seq_eq(b, a) { assert forall|i: int| 0 <= i < a.len() implies #[trigger] a[i].eq_spec(&b[i]) by { assert(b[i].eq_spec(&a[i])); } }
}

//@@LEMMA C11
pub proof fn lemma_weq_symmetric<D: GarnishData>(cells: Map<D::Size, Cell<D::Size, D::Number, D::Symbol, D::Char, D::Byte>>, w: Seq<D::Size>, fuel: nat)
    requires w.len() % 2 == 0
    ensures weq::<D>(cells, w, fuel) == weq::<D>(cells, mirror(w), fuel)
    decreases fuel
{
    if w.len() >= 2 && fuel > 0 {
        let r = w[w.len() - 1]; let l = w[w.len() - 2];
        let base = w.take(w.len() - 2);
        let m = mirror(w);
        lemma_mirror_even_len(w);
        lemma_mirror_even_len(base);
        assert(m == mirror(base).push(r).push(l));
        assert(m[m.len() - 1] == l && m[m.len() - 2] == r);
        assert(m.take(m.len() - 2) =~= mirror(base));
        lemma_deq_symmetric::<D>(cells, l, r);
        if !(cells[l].ty == GarnishDataType::Slice || cells[r].ty == GarnishDataType::Slice) && deq::<D>(cells, l, r).0 {
            lemma_mirror_append(base, deq::<D>(cells, l, r).1);
            lemma_weq_symmetric::<D>(cells, base + deq::<D>(cells, l, r).1, (fuel - 1) as nat);
        }
    } else if w.len() < 2 {
        assert(mirror(w).len() < 2);
    } else {
        lemma_mirror_even_len(w);
    }
}

pub proof fn lemma_mirror_even_len<T>(w: Seq<T>)
    requires w.len() % 2 == 0
    ensures mirror(w).len() == w.len()
    decreases w.len()
{
    if w.len() >= 2 { lemma_mirror_even_len(w.take(w.len() - 2)); }
}

/// `l == r` and `r == l` have the same verdict (whenever one is determined within `fuel` steps, so is the other)
//@@LEMMA C11
pub proof fn lemma_equality_is_symmetric<D: GarnishData>(cells: Map<D::Size, Cell<D::Size, D::Number, D::Symbol, D::Char, D::Byte>>, l: D::Size, r: D::Size, fuel: nat)
    ensures weq::<D>(cells, seq![l, r], fuel) == weq::<D>(cells, seq![r, l], fuel)
{
    let w = seq![l, r];
    assert(w.take(w.len() - 2) =~= Seq::<D::Size>::empty());
    assert(mirror(Seq::<D::Size>::empty()) =~= Seq::<D::Size>::empty());
    assert(mirror(w) == mirror(w.take(w.len() - 2)).push(w[w.len() - 1]).push(w[w.len() - 2]));
    assert(mirror(w) =~= seq![r, l]);
    lemma_weq_symmetric::<D>(cells, w, fuel);
}

/// the value types C11 quantifies over (ranges, slices, partials and custom values are not among them: `x == x` is false for a partial)
pub open spec fn c11_type(t: GarnishDataType) -> bool {
    t == GarnishDataType::Unit || t == GarnishDataType::True || t == GarnishDataType::False || t == GarnishDataType::Number
    || t == GarnishDataType::Char || t == GarnishDataType::Byte || t == GarnishDataType::Symbol || t == GarnishDataType::SymbolList
    || t == GarnishDataType::CharList || t == GarnishDataType::ByteList || t == GarnishDataType::Pair || t == GarnishDataType::List
    || t == GarnishDataType::Concatenation
}

/// every pending pair of the queue compares a value with itself
pub open spec fn diag<T>(w: Seq<T>) -> bool {
    w.len() % 2 == 0 && forall|i: int| 0 <= i < w.len() && i % 2 == 0 ==> #[trigger] w[i] == w[i + 1]
}

pub proof fn lemma_zipn_diag<T>(a: Seq<T>, n: nat)
    requires n <= a.len()
    ensures diag(zipn(a, a, n))
    decreases n
{
    lemma_zipn_len(a, a, n);
    if n > 0 {
        lemma_zipn_diag(a, (n - 1) as nat);
        lemma_zipn_len(a, a, (n - 1) as nat);
        let z = zipn(a, a, n); let z0 = zipn(a, a, (n - 1) as nat);
        assert forall|i: int| 0 <= i < z.len() && i % 2 == 0 implies #[trigger] z[i] == z[i + 1] by {
            if i < z0.len() { assert(z[i] == z0[i]); assert(z[i + 1] == z0[i + 1]); }
        }
    }
}

/// a value equals itself: comparing `x` with `x` never answers false, provided numeric equality is reflexive on the numbers
/// involved (it is not for NaN) - the verdict is true whenever it is determined
//@@LEMMA C11
pub proof fn lemma_weq_reflexive<D: GarnishData>(cells: Map<D::Size, Cell<D::Size, D::Number, D::Symbol, D::Char, D::Byte>>, w: Seq<D::Size>, fuel: nat)
    requires diag(w), forall|n: D::Number| #![trigger D::num_eq(n, n)] D::num_eq(n, n), forall|a: D::Size| c11_type(#[trigger] cells[a].ty),
    ensures weq::<D>(cells, w, fuel) != Some(false)
    decreases fuel
{
    D::axioms();
    if w.len() >= 2 && fuel > 0 {
        let r = w[w.len() - 1]; let l = w[w.len() - 2];
        assert(w[w.len() - 2] == w[w.len() - 2 + 1]);
        assert(l == r);
        let c = cells[l];
        let base = w.take(w.len() - 2);
        if c.ty != GarnishDataType::Slice {
            // one step on (x, x): true, and what it queues is again pairs of a value with itself
            let nxt = deq::<D>(cells, l, r).1;
            if is_seq_ty(c.ty) {
                let a = flat_items::<D>(cells, l);
                lemma_zipn_diag(a, a.len());
                lemma_zipn_len(a, a, a.len());
            } else if c.ty == GarnishDataType::Pair {
                assert(diag(seq![c.a, c.a, c.b, c.b]));
            } else {
                assert(diag(Seq::<D::Size>::empty()));
                assert(c11_type(c.ty));
                assert(seq_eq(c.chars, c.chars));
                assert(seq_eq(c.bytes, c.bytes));
                assert(seq_eq(c.parts, c.parts)) by {
                    assert forall|i: int| 0 <= i < c.parts.len() implies #[trigger] c.parts[i].eq_spec(&c.parts[i]) by {
                        match c.parts[i] { SymbolListPart::Symbol(x) => {}, SymbolListPart::Number(x) => { assert(D::num_eq(x, x)); } }
                    }
                }
            }
            assert(deq::<D>(cells, l, r).0);
            assert(diag(nxt));
            let q = base + nxt;
            assert forall|i: int| 0 <= i < q.len() && i % 2 == 0 implies #[trigger] q[i] == q[i + 1] by {
                if i < base.len() { assert(q[i] == w[i]); assert(q[i + 1] == w[i + 1]); }
                else { assert(q[i] == nxt[i - base.len()]); assert(q[i + 1] == nxt[i - base.len() + 1]); }
            }
            lemma_weq_reflexive::<D>(cells, q, (fuel - 1) as nat);
        }
    }
}

/// `x == x` is never false (see lemma_weq_reflexive for the proviso on NaN)
//@@LEMMA C11
pub proof fn lemma_equality_is_reflexive<D: GarnishData>(cells: Map<D::Size, Cell<D::Size, D::Number, D::Symbol, D::Char, D::Byte>>, x: D::Size, fuel: nat)
    requires forall|n: D::Number| #![trigger D::num_eq(n, n)] D::num_eq(n, n), forall|a: D::Size| c11_type(#[trigger] cells[a].ty),
    ensures weq::<D>(cells, seq![x, x], fuel) != Some(false)
{
    assert(diag(seq![x, x]));
    lemma_weq_reflexive::<D>(cells, seq![x, x], fuel);
}

/// three queues in lockstep: position by position they hold the pairs (a, b), (b, c) and (a, c)
pub open spec fn tri<T>(wab: Seq<T>, wbc: Seq<T>, wac: Seq<T>) -> bool {
    wab.len() % 2 == 0 && wbc.len() == wab.len() && wac.len() == wab.len()
    && forall|i: int| 0 <= i < wab.len() && i % 2 == 0 ==> #[trigger] wab[i] == wac[i] && wab[i + 1] == wbc[i] && wbc[i + 1] == wac[i + 1]
}

pub proof fn lemma_zipn_tri<T>(a: Seq<T>, b: Seq<T>, c: Seq<T>, n: nat)
    requires n <= a.len(), n <= b.len(), n <= c.len()
    ensures tri(zipn(a, b, n), zipn(b, c, n), zipn(a, c, n))
    decreases n
{
    lemma_zipn_len(a, b, n); lemma_zipn_len(b, c, n); lemma_zipn_len(a, c, n);
    if n > 0 {
        lemma_zipn_tri(a, b, c, (n - 1) as nat);
        lemma_zipn_len(a, b, (n - 1) as nat); lemma_zipn_len(b, c, (n - 1) as nat); lemma_zipn_len(a, c, (n - 1) as nat);
        let x = zipn(a, b, n); let y = zipn(b, c, n); let z = zipn(a, c, n);
        let x0 = zipn(a, b, (n - 1) as nat); let y0 = zipn(b, c, (n - 1) as nat); let z0 = zipn(a, c, (n - 1) as nat);
        assert forall|i: int| 0 <= i < x.len() && i % 2 == 0 implies #[trigger] x[i] == z[i] && x[i + 1] == y[i] && y[i + 1] == z[i + 1] by {
            if i < x0.len() {
                assert(x[i] == x0[i] && x[i + 1] == x0[i + 1] && y[i] == y0[i] && y[i + 1] == y0[i + 1] && z[i] == z0[i] && z[i + 1] == z0[i + 1]);
                assert(x0[i] == z0[i]);
            }
        }
    }
}

pub proof fn lemma_tri_append<T>(x1: Seq<T>, x2: Seq<T>, x3: Seq<T>, y1: Seq<T>, y2: Seq<T>, y3: Seq<T>)
    requires tri(x1, x2, x3), tri(y1, y2, y3)
    ensures tri(x1 + y1, x2 + y2, x3 + y3)
{
    let a = x1 + y1; let b = x2 + y2; let c = x3 + y3;
    assert forall|i: int| 0 <= i < a.len() && i % 2 == 0 implies #[trigger] a[i] == c[i] && a[i + 1] == b[i] && b[i + 1] == c[i + 1] by {
        if i < x1.len() { assert(x1[i] == x3[i]); }
        else { let j = i - x1.len(); assert(y1[j] == y3[j]); }
    }
}

/// one step: if (a, b) and (b, c) pass, so does (a, c), and the pairs they queue stay in lockstep
#[verifier::rlimit(300)]
#[verifier::spinoff_prover]
pub proof fn lemma_deq_transitive<D: GarnishData>(cells: Map<D::Size, Cell<D::Size, D::Number, D::Symbol, D::Char, D::Byte>>, a: D::Size, b: D::Size, c: D::Size)
    requires
        deq::<D>(cells, a, b).0, deq::<D>(cells, b, c).0,
        forall|x: D::Number, y: D::Number, z: D::Number| #![trigger D::num_eq(x, y), D::num_eq(y, z)] D::num_eq(x, y) && D::num_eq(y, z) ==> D::num_eq(x, z),
    ensures deq::<D>(cells, a, c).0, tri(deq::<D>(cells, a, b).1, deq::<D>(cells, b, c).1, deq::<D>(cells, a, c).1)
{
    D::axioms();
    let ca = cells[a]; let cb = cells[b]; let cc = cells[c];
    let none = Seq::<D::Size>::empty();
    assert(tri(none, none, none));
    if is_seq_ty(ca.ty) && is_seq_ty(cb.ty) {
        assert(is_seq_ty(cc.ty));
        let fa = flat_items::<D>(cells, a); let fb = flat_items::<D>(cells, b); let fc = flat_items::<D>(cells, c);
        lemma_zipn_tri(fa, fb, fc, fa.len());
    } else if ca.ty == GarnishDataType::Pair && cb.ty == GarnishDataType::Pair {
        assert(cc.ty == GarnishDataType::Pair);
        assert(tri(seq![ca.a, cb.a, ca.b, cb.b], seq![cb.a, cc.a, cb.b, cc.b], seq![ca.a, cc.a, ca.b, cc.b]));
    } else {
        assert(!is_seq_ty(cc.ty) || !is_seq_ty(cb.ty));
        lemma_seq_eq_transitive_parts::<D>(ca.parts, cb.parts, cc.parts);
        // text and byte lists, and the single character / byte that equals the one-element list of it
        if seq_eq(ca.chars, cb.chars) && seq_eq(cb.chars, cc.chars) {
            assert forall|i: int| 0 <= i < ca.chars.len() implies #[trigger] ca.chars[i].eq_spec(&cc.chars[i]) by { assert(ca.chars[i].eq_spec(&cb.chars[i])); assert(cb.chars[i].eq_spec(&cc.chars[i])); }
        }
        if seq_eq(ca.bytes, cb.bytes) && seq_eq(cb.bytes, cc.bytes) {
            assert forall|i: int| 0 <= i < ca.bytes.len() implies #[trigger] ca.bytes[i].eq_spec(&cc.bytes[i]) by { assert(ca.bytes[i].eq_spec(&cb.bytes[i])); assert(cb.bytes[i].eq_spec(&cc.bytes[i])); }
        }
        if ca.chars.len() == 1 && cc.chars.len() == 1 && ca.chars[0] == cc.chars[0] {
            assert forall|i: int| 0 <= i < ca.chars.len() implies #[trigger] ca.chars[i].eq_spec(&cc.chars[i]) by {}
        }
        if ca.bytes.len() == 1 && cc.bytes.len() == 1 && ca.bytes[0] == cc.bytes[0] {
            assert forall|i: int| 0 <= i < ca.bytes.len() implies #[trigger] ca.bytes[i].eq_spec(&cc.bytes[i]) by {}
        }
        if seq_eq(ca.chars, cb.chars) && ca.chars.len() >= 1 { assert(ca.chars[0].eq_spec(&cb.chars[0])); }
        if seq_eq(cb.chars, cc.chars) && cb.chars.len() >= 1 { assert(cb.chars[0].eq_spec(&cc.chars[0])); }
        if seq_eq(ca.bytes, cb.bytes) && ca.bytes.len() >= 1 { assert(ca.bytes[0].eq_spec(&cb.bytes[0])); }
        if seq_eq(cb.bytes, cc.bytes) && cb.bytes.len() >= 1 { assert(cb.bytes[0].eq_spec(&cc.bytes[0])); }
    }
}

pub proof fn lemma_seq_eq_transitive_parts<D: GarnishData>(a: Seq<SymbolListPart<D::Symbol, D::Number>>, b: Seq<SymbolListPart<D::Symbol, D::Number>>, c: Seq<SymbolListPart<D::Symbol, D::Number>>)
    requires forall|x: D::Number, y: D::Number, z: D::Number| #![trigger D::num_eq(x, y), D::num_eq(y, z)] D::num_eq(x, y) && D::num_eq(y, z) ==> D::num_eq(x, z),
    ensures seq_eq(a, b) && seq_eq(b, c) ==> seq_eq(a, c)
{
    D::axioms();
    if seq_eq(a, b) && seq_eq(b, c) {
        assert forall|i: int| 0 <= i < a.len() implies #[trigger] a[i].eq_spec(&c[i]) by { assert(a[i].eq_spec(&b[i])); assert(b[i].eq_spec(&c[i])); }
    }
}

/// `a == b` and `b == c` (both true within `fuel` steps) give `a == c`, provided numeric equality is transitive (K1 proves it for
/// SimpleNumber: harness `eq_transitive`)
//@@LEMMA C11
pub proof fn lemma_weq_transitive<D: GarnishData>(cells: Map<D::Size, Cell<D::Size, D::Number, D::Symbol, D::Char, D::Byte>>, wab: Seq<D::Size>, wbc: Seq<D::Size>, wac: Seq<D::Size>, fuel: nat)
    requires
        tri(wab, wbc, wac), weq::<D>(cells, wab, fuel) == Some(true), weq::<D>(cells, wbc, fuel) == Some(true),
        forall|x: D::Number, y: D::Number, z: D::Number| #![trigger D::num_eq(x, y), D::num_eq(y, z)] D::num_eq(x, y) && D::num_eq(y, z) ==> D::num_eq(x, z),
    ensures weq::<D>(cells, wac, fuel) == Some(true)
    decreases fuel
{
    if wab.len() >= 2 {
        let n = wab.len();
        let a = wab[n - 2]; let b = wab[n - 1]; let c = wbc[n - 1];
        assert(wab[n - 2] == wac[n - 2] && wab[n - 2 + 1] == wbc[n - 2] && wbc[n - 2 + 1] == wac[n - 2 + 1]);
        assert(wbc[n - 2] == b && wac[n - 2] == a && wac[n - 1] == c);
        assert(fuel > 0);
        lemma_deq_transitive::<D>(cells, a, b, c);
        let x1 = wab.take(n - 2); let x2 = wbc.take(n - 2); let x3 = wac.take(n - 2);
        assert(tri(x1, x2, x3)) by {
            assert forall|i: int| 0 <= i < x1.len() && i % 2 == 0 implies #[trigger] x1[i] == x3[i] && x1[i + 1] == x2[i] && x2[i + 1] == x3[i + 1] by {
                assert(wab[i] == wac[i]);
            }
        }
        lemma_tri_append(x1, x2, x3, deq::<D>(cells, a, b).1, deq::<D>(cells, b, c).1, deq::<D>(cells, a, c).1);
        lemma_weq_transitive::<D>(cells, x1 + deq::<D>(cells, a, b).1, x2 + deq::<D>(cells, b, c).1, x3 + deq::<D>(cells, a, c).1, (fuel - 1) as nat);
    }
}

//@@LEMMA C11
pub proof fn lemma_equality_is_transitive<D: GarnishData>(cells: Map<D::Size, Cell<D::Size, D::Number, D::Symbol, D::Char, D::Byte>>, a: D::Size, b: D::Size, c: D::Size, fuel: nat)
    requires
        weq::<D>(cells, seq![a, b], fuel) == Some(true), weq::<D>(cells, seq![b, c], fuel) == Some(true),
        forall|x: D::Number, y: D::Number, z: D::Number| #![trigger D::num_eq(x, y), D::num_eq(y, z)] D::num_eq(x, y) && D::num_eq(y, z) ==> D::num_eq(x, z),
    ensures weq::<D>(cells, seq![a, c], fuel) == Some(true)
{
    assert(tri(seq![a, b], seq![b, c], seq![a, c]));
    lemma_weq_transitive::<D>(cells, seq![a, b], seq![b, c], seq![a, c], fuel);
}

pub trait GarnishData: Sized {
    type Error: std::error::Error + 'static;
    type Symbol: Default + Display + Debug + PartialOrd + TypeConstants + Clone;
    type Byte: Default + Display + Debug + PartialOrd + Clone;
    type Char: Default + Display + Debug + PartialOrd + Clone;
    type Number: Default + Display + Debug + PartialOrd + TypeConstants + Clone + GarnishNumber;
    type Size: Default
        + Display
        + Debug
        + Add<Output = Self::Size>
        + AddAssign
        + SubAssign
        + Sub<Output = Self::Size>
        + PartialOrd
        + TypeConstants
        + Clone;
    type ListItemIterator: Iterator<Item = Self::Size>;
    type ConcatenationItemIterator: Iterator<Item = Self::Size>;
    type CharIterator: Iterator<Item = Self::Char>;
    type ByteIterator: Iterator<Item = Self::Byte>;
    type SymbolListPartIterator: Iterator<Item = SymbolListPart<Self::Symbol, Self::Number>>;
    type DataFactory: GarnishDataFactory<Self::Size, Self::Number, Self::Char, Self::Byte, Self::Symbol, Self::Error, Self::SizeIterator, Self::NumberIterator>;
    type SizeIterator;
    type NumberIterator;

    // ---- ghost views ----
    spec fn st(&self) -> St<Self::Size, Self::Number, Self::Symbol, Self::Char, Self::Byte>;

    // ---- data table: readers ----
    fn get_data_len(&self) -> (r: Self::Size)
        ensures Self::sv(r) == self.st().data_len;

    fn get_data_type(&self, addr: Self::Size) -> (r: Result<GarnishDataType, Self::Error>)
        ensures r matches Ok(v) ==> self.st().cells.contains_key(addr) && v == self.st().cells[addr].ty;

    fn get_number(&self, addr: Self::Size) -> (r: Result<Self::Number, Self::Error>)
        ensures r matches Ok(v) ==> self.st().cells.contains_key(addr) && self.st().cells[addr].ty == GarnishDataType::Number && v == self.st().cells[addr].num;

    fn get_type(&self, addr: Self::Size) -> (r: Result<GarnishDataType, Self::Error>)
        ensures r matches Ok(v) ==> self.st().cells.contains_key(addr) && self.st().cells[addr].ty == GarnishDataType::Type && v == self.st().cells[addr].typ;

    fn get_char(&self, addr: Self::Size) -> (r: Result<Self::Char, Self::Error>)
        ensures r matches Ok(v) ==> self.st().cells.contains_key(addr) && self.st().cells[addr].ty == GarnishDataType::Char && v == self.st().cells[addr].chr;

    fn get_byte(&self, addr: Self::Size) -> (r: Result<Self::Byte, Self::Error>)
        ensures r matches Ok(v) ==> self.st().cells.contains_key(addr) && self.st().cells[addr].ty == GarnishDataType::Byte && v == self.st().cells[addr].byt;

    fn get_symbol(&self, addr: Self::Size) -> (r: Result<Self::Symbol, Self::Error>)
        ensures r matches Ok(v) ==> self.st().cells.contains_key(addr) && self.st().cells[addr].ty == GarnishDataType::Symbol && v == self.st().cells[addr].sym;

    fn get_expression(&self, addr: Self::Size) -> (r: Result<Self::Size, Self::Error>)
        ensures r matches Ok(v) ==> self.st().cells.contains_key(addr) && self.st().cells[addr].ty == GarnishDataType::Expression && v == self.st().cells[addr].a;

    fn get_external(&self, addr: Self::Size) -> (r: Result<Self::Size, Self::Error>)
        ensures r matches Ok(v) ==> self.st().cells.contains_key(addr) && self.st().cells[addr].ty == GarnishDataType::External && v == self.st().cells[addr].a;

    fn get_pair(&self, addr: Self::Size) -> (r: Result<(Self::Size, Self::Size), Self::Error>)
        ensures r matches Ok(v) ==> self.st().cells.contains_key(addr) && self.st().cells[addr].ty == GarnishDataType::Pair && v == (self.st().cells[addr].a, self.st().cells[addr].b);

    fn get_concatenation(&self, addr: Self::Size) -> (r: Result<(Self::Size, Self::Size), Self::Error>)
        ensures r matches Ok(v) ==> self.st().cells.contains_key(addr) && self.st().cells[addr].ty == GarnishDataType::Concatenation && v == (self.st().cells[addr].a, self.st().cells[addr].b);

    fn get_range(&self, addr: Self::Size) -> (r: Result<(Self::Size, Self::Size), Self::Error>)
        ensures r matches Ok(v) ==> self.st().cells.contains_key(addr) && self.st().cells[addr].ty == GarnishDataType::Range && v == (self.st().cells[addr].a, self.st().cells[addr].b);

    fn get_slice(&self, addr: Self::Size) -> (r: Result<(Self::Size, Self::Size), Self::Error>)
        ensures r matches Ok(v) ==> self.st().cells.contains_key(addr) && self.st().cells[addr].ty == GarnishDataType::Slice && v == (self.st().cells[addr].a, self.st().cells[addr].b);

    fn get_partial(&self, addr: Self::Size) -> (r: Result<(Self::Size, Self::Size), Self::Error>)
        ensures r matches Ok(v) ==> self.st().cells.contains_key(addr) && self.st().cells[addr].ty == GarnishDataType::Partial && v == (self.st().cells[addr].a, self.st().cells[addr].b);

    // ---- lists (C16 at trait level) ----
    fn get_list_len(&self, addr: Self::Size) -> (r: Result<Self::Size, Self::Error>)
        ensures r matches Ok(v) ==> self.st().cells.contains_key(addr) && self.st().cells[addr].ty == GarnishDataType::List && Self::sv(v) == self.st().cells[addr].items.len();

    fn get_list_item(&self, list_addr: Self::Size, item_addr: Self::Number) -> (r: Result<Option<Self::Size>, Self::Error>)
        ensures
            r is Ok ==> self.st().cells.contains_key(list_addr) && self.st().cells[list_addr].ty == GarnishDataType::List,
            r matches Ok(Some(v)) ==> 0 <= Self::nidx(item_addr) < self.st().cells[list_addr].items.len() && v == self.st().cells[list_addr].items[Self::nidx(item_addr)],
            r matches Ok(None) ==> !(0 <= Self::nidx(item_addr) < self.st().cells[list_addr].items.len());

    fn get_list_item_with_symbol(&self, list_addr: Self::Size, sym: Self::Symbol) -> (r: Result<Option<Self::Size>, Self::Error>)
        ensures
            r is Ok ==> self.st().cells.contains_key(list_addr) && self.st().cells[list_addr].ty == GarnishDataType::List,
            r matches Ok(Some(v)) ==> exists|i: int| 0 <= i < self.st().cells[list_addr].items.len() && #[trigger] assoc_value(self.st().cells, self.st().cells[list_addr].items[i], sym) == Some(v),
            r matches Ok(None) ==> forall|i: int| 0 <= i < self.st().cells[list_addr].items.len() ==> (#[trigger] assoc_value(self.st().cells, self.st().cells[list_addr].items[i], sym)) is None;

    fn get_char_list_len(&self, addr: Self::Size) -> (r: Result<Self::Size, Self::Error>)
        ensures r matches Ok(v) ==> self.st().cells.contains_key(addr) && self.st().cells[addr].ty == GarnishDataType::CharList && Self::sv(v) == self.st().cells[addr].chars.len();

    fn get_char_list_item(&self, addr: Self::Size, item_index: Self::Number) -> (r: Result<Option<Self::Char>, Self::Error>)
        ensures
            r is Ok ==> self.st().cells.contains_key(addr) && self.st().cells[addr].ty == GarnishDataType::CharList,
            r matches Ok(Some(v)) ==> 0 <= Self::nidx(item_index) < self.st().cells[addr].chars.len() && v == self.st().cells[addr].chars[Self::nidx(item_index)],
            r matches Ok(None) ==> !(0 <= Self::nidx(item_index) < self.st().cells[addr].chars.len());

    fn get_byte_list_len(&self, addr: Self::Size) -> (r: Result<Self::Size, Self::Error>)
        ensures r matches Ok(v) ==> self.st().cells.contains_key(addr) && self.st().cells[addr].ty == GarnishDataType::ByteList && Self::sv(v) == self.st().cells[addr].bytes.len();

    fn get_byte_list_item(&self, addr: Self::Size, item_index: Self::Number) -> (r: Result<Option<Self::Byte>, Self::Error>)
        ensures
            r is Ok ==> self.st().cells.contains_key(addr) && self.st().cells[addr].ty == GarnishDataType::ByteList,
            r matches Ok(Some(v)) ==> 0 <= Self::nidx(item_index) < self.st().cells[addr].bytes.len() && v == self.st().cells[addr].bytes[Self::nidx(item_index)],
            r matches Ok(None) ==> !(0 <= Self::nidx(item_index) < self.st().cells[addr].bytes.len());

    fn get_symbol_list_len(&self, addr: Self::Size) -> (r: Result<Self::Size, Self::Error>)
        ensures r matches Ok(v) ==> self.st().cells.contains_key(addr) && self.st().cells[addr].ty == GarnishDataType::SymbolList && Self::sv(v) == self.st().cells[addr].parts.len();

    fn get_symbol_list_item(&self, addr: Self::Size, item_index: Self::Number) -> (r: Result<Option<SymbolListPart<Self::Symbol, Self::Number>>, Self::Error>)
        ensures
            r is Ok ==> self.st().cells.contains_key(addr) && self.st().cells[addr].ty == GarnishDataType::SymbolList,
            r matches Ok(Some(v)) ==> 0 <= Self::nidx(item_index) < self.st().cells[addr].parts.len() && v == self.st().cells[addr].parts[Self::nidx(item_index)],
            r matches Ok(None) ==> !(0 <= Self::nidx(item_index) < self.st().cells[addr].parts.len());

    // ---- iterators: the selected window of the sequence, in order (C11, C16) ----
    fn get_char_list_iter(&self, list_addr: Self::Size, extents: Extents<Self::Number>) -> (r: Result<Self::CharIterator, Self::Error>)
        ensures r matches Ok(it) ==> self.st().cells.contains_key(list_addr) && self.st().cells[list_addr].ty == GarnishDataType::CharList
            && rem(it) == self.st().cells[list_addr].chars.subrange(Self::ext_sel(self.st().cells[list_addr].chars.len(), extents).0, Self::ext_sel(self.st().cells[list_addr].chars.len(), extents).1);
    fn get_byte_list_iter(&self, list_addr: Self::Size, extents: Extents<Self::Number>) -> (r: Result<Self::ByteIterator, Self::Error>)
        ensures r matches Ok(it) ==> self.st().cells.contains_key(list_addr) && self.st().cells[list_addr].ty == GarnishDataType::ByteList
            && rem(it) == self.st().cells[list_addr].bytes.subrange(Self::ext_sel(self.st().cells[list_addr].bytes.len(), extents).0, Self::ext_sel(self.st().cells[list_addr].bytes.len(), extents).1);
    fn get_symbol_list_iter(&self, list_addr: Self::Size, extents: Extents<Self::Number>) -> (r: Result<Self::SymbolListPartIterator, Self::Error>)
        ensures r matches Ok(it) ==> self.st().cells.contains_key(list_addr) && self.st().cells[list_addr].ty == GarnishDataType::SymbolList
            && rem(it) == self.st().cells[list_addr].parts.subrange(Self::ext_sel(self.st().cells[list_addr].parts.len(), extents).0, Self::ext_sel(self.st().cells[list_addr].parts.len(), extents).1);
    fn get_list_item_iter(&self, list_addr: Self::Size, extents: Extents<Self::Number>) -> (r: Result<Self::ListItemIterator, Self::Error>)
        ensures r matches Ok(it) ==> self.st().cells.contains_key(list_addr) && self.st().cells[list_addr].ty == GarnishDataType::List
            && rem(it) == self.st().cells[list_addr].items.subrange(Self::ext_sel(self.st().cells[list_addr].items.len(), extents).0, Self::ext_sel(self.st().cells[list_addr].items.len(), extents).1);
    fn get_concatenation_iter(&self, addr: Self::Size, extents: Extents<Self::Number>) -> (r: Result<Self::ConcatenationItemIterator, Self::Error>)
        ensures r matches Ok(it) ==> self.st().cells.contains_key(addr) && self.st().cells[addr].ty == GarnishDataType::Concatenation
            && rem(it) == Self::concat_flat(self.st().cells, addr).subrange(Self::ext_sel(Self::concat_flat(self.st().cells, addr).len(), extents).0, Self::ext_sel(Self::concat_flat(self.st().cells, addr).len(), extents).1);

    // ---- data table: adders. Frame: existing cells keep their content; nothing else changes ----
    fn add_unit(&mut self) -> (r: Result<Self::Size, Self::Error>)
        ensures
            r matches Ok(a) ==> only_cells(old(self).st(), final(self).st()) && final(self).st().cells.contains_key(a) && final(self).st().cells[a].ty == GarnishDataType::Unit;

    fn add_true(&mut self) -> (r: Result<Self::Size, Self::Error>)
        ensures
            r matches Ok(a) ==> only_cells(old(self).st(), final(self).st()) && final(self).st().cells.contains_key(a) && final(self).st().cells[a].ty == GarnishDataType::True;

    fn add_false(&mut self) -> (r: Result<Self::Size, Self::Error>)
        ensures
            r matches Ok(a) ==> only_cells(old(self).st(), final(self).st()) && final(self).st().cells.contains_key(a) && final(self).st().cells[a].ty == GarnishDataType::False;

    fn add_number(&mut self, value: Self::Number) -> (r: Result<Self::Size, Self::Error>)
        ensures
            r matches Ok(a) ==> only_cells(old(self).st(), final(self).st()) && final(self).st().cells.contains_key(a) && final(self).st().cells[a].ty == GarnishDataType::Number && final(self).st().cells[a].num == value;

    fn add_type(&mut self, value: GarnishDataType) -> (r: Result<Self::Size, Self::Error>)
        ensures
            r matches Ok(a) ==> only_cells(old(self).st(), final(self).st()) && final(self).st().cells.contains_key(a) && final(self).st().cells[a].ty == GarnishDataType::Type && final(self).st().cells[a].typ == value;

    fn add_char(&mut self, value: Self::Char) -> (r: Result<Self::Size, Self::Error>)
        ensures
            r matches Ok(a) ==> only_cells(old(self).st(), final(self).st()) && final(self).st().cells.contains_key(a) && final(self).st().cells[a].ty == GarnishDataType::Char && final(self).st().cells[a].chr == value;

    fn add_byte(&mut self, value: Self::Byte) -> (r: Result<Self::Size, Self::Error>)
        ensures
            r matches Ok(a) ==> only_cells(old(self).st(), final(self).st()) && final(self).st().cells.contains_key(a) && final(self).st().cells[a].ty == GarnishDataType::Byte && final(self).st().cells[a].byt == value;

    fn add_symbol(&mut self, value: Self::Symbol) -> (r: Result<Self::Size, Self::Error>)
        ensures
            r matches Ok(a) ==> only_cells(old(self).st(), final(self).st()) && final(self).st().cells.contains_key(a) && final(self).st().cells[a].ty == GarnishDataType::Symbol && final(self).st().cells[a].sym == value;

    fn add_expression(&mut self, value: Self::Size) -> (r: Result<Self::Size, Self::Error>)
        ensures
            r matches Ok(a) ==> only_cells(old(self).st(), final(self).st()) && final(self).st().cells.contains_key(a) && final(self).st().cells[a].ty == GarnishDataType::Expression && final(self).st().cells[a].a == value;

    fn add_external(&mut self, value: Self::Size) -> (r: Result<Self::Size, Self::Error>)
        ensures
            r matches Ok(a) ==> only_cells(old(self).st(), final(self).st()) && final(self).st().cells.contains_key(a) && final(self).st().cells[a].ty == GarnishDataType::External && final(self).st().cells[a].a == value;

    fn add_pair(&mut self, value: (Self::Size, Self::Size)) -> (r: Result<Self::Size, Self::Error>)
        ensures
            r matches Ok(a) ==> only_cells(old(self).st(), final(self).st()) && final(self).st().cells.contains_key(a) && final(self).st().cells[a].ty == GarnishDataType::Pair && final(self).st().cells[a].a == value.0 && final(self).st().cells[a].b == value.1;

    fn add_concatenation(&mut self, left: Self::Size, right: Self::Size) -> (r: Result<Self::Size, Self::Error>)
        ensures
            r matches Ok(a) ==> only_cells(old(self).st(), final(self).st()) && final(self).st().cells.contains_key(a) && final(self).st().cells[a].ty == GarnishDataType::Concatenation && final(self).st().cells[a].a == left && final(self).st().cells[a].b == right;

    fn add_range(&mut self, start: Self::Size, end: Self::Size) -> (r: Result<Self::Size, Self::Error>)
        ensures
            r matches Ok(a) ==> only_cells(old(self).st(), final(self).st()) && final(self).st().cells.contains_key(a) && final(self).st().cells[a].ty == GarnishDataType::Range && final(self).st().cells[a].a == start && final(self).st().cells[a].b == end;

    fn add_slice(&mut self, list: Self::Size, range: Self::Size) -> (r: Result<Self::Size, Self::Error>)
        ensures
            r matches Ok(a) ==> only_cells(old(self).st(), final(self).st()) && final(self).st().cells.contains_key(a) && final(self).st().cells[a].ty == GarnishDataType::Slice && final(self).st().cells[a].a == list && final(self).st().cells[a].b == range;

    fn add_partial(&mut self, reciever: Self::Size, input: Self::Size) -> (r: Result<Self::Size, Self::Error>)
        ensures
            r matches Ok(a) ==> only_cells(old(self).st(), final(self).st()) && final(self).st().cells.contains_key(a) && final(self).st().cells[a].ty == GarnishDataType::Partial && final(self).st().cells[a].a == reciever && final(self).st().cells[a].b == input;

    fn merge_to_symbol_list(&mut self, first: Self::Size, second: Self::Size) -> (r: Result<Self::Size, Self::Error>)
        ensures
            r matches Ok(a) ==> only_cells(old(self).st(), final(self).st()) && final(self).st().cells.contains_key(a) && final(self).st().cells[a].ty == GarnishDataType::SymbolList;

    // ---- list builder ----
    fn start_list(&mut self, len: Self::Size) -> (r: Result<Self::Size, Self::Error>)
        ensures
            r matches Ok(l) ==> grows(old(self).st(), final(self).st()) && !old(self).st().building.contains_key(l)
                && final(self).st() == (St { cells: final(self).st().cells, data_len: final(self).st().data_len,
                        building: old(self).st().building.insert(l, Building { cap: Self::sv(len), items: Seq::empty() }), ..old(self).st() });

    fn add_to_list(&mut self, list_index: Self::Size, item_index: Self::Size) -> (r: Result<Self::Size, Self::Error>)
        ensures
            r matches Ok(l) ==> grows(old(self).st(), final(self).st()) && old(self).st().building.contains_key(list_index)
                && (l == list_index || !old(self).st().building.contains_key(l))
                && final(self).st() == (St { cells: final(self).st().cells, data_len: final(self).st().data_len,
                        building: old(self).st().building.remove(list_index).insert(l, Building { cap: old(self).st().building[list_index].cap, items: old(self).st().building[list_index].items.push(item_index) }), ..old(self).st() });

    fn end_list(&mut self, list_index: Self::Size) -> (r: Result<Self::Size, Self::Error>)
        ensures
            r matches Ok(a) ==> grows(old(self).st(), final(self).st()) && old(self).st().building.contains_key(list_index)
                && final(self).st() == (St { cells: final(self).st().cells, data_len: final(self).st().data_len,
                        building: old(self).st().building.remove(list_index), ..old(self).st() })
                && final(self).st().cells.contains_key(a) && final(self).st().cells[a].ty == GarnishDataType::List
                && final(self).st().cells[a].items == old(self).st().building[list_index].items;

    // ---- operand ("register") stack ----
    fn get_register_len(&self) -> (r: Self::Size)
        ensures Self::sv(r) == self.st().regs.len();

    fn push_register(&mut self, addr: Self::Size) -> (r: Result<(), Self::Error>)
        ensures
            r is Ok ==> only_cells_regs(old(self).st(), final(self).st(), old(self).st().regs.push(addr)) && final(self).st().cells == old(self).st().cells;

    fn get_register(&self, addr: Self::Size) -> (r: Option<Self::Size>)
        ensures
            r matches Some(v) ==> Self::sv(addr) < self.st().regs.len() && v == self.st().regs[Self::sv(addr) as int],
            r is None ==> Self::sv(addr) >= self.st().regs.len();

    fn pop_register(&mut self) -> (r: Result<Option<Self::Size>, Self::Error>)
        ensures
            r matches Ok(Some(v)) ==> old(self).st().regs.len() > 0 && v == old(self).st().regs.last() && final(self).st() == (St { regs: old(self).st().regs.drop_last(), ..old(self).st() }),
            r matches Ok(None) ==> old(self).st().regs.len() == 0 && final(self).st() == old(self).st();

    // ---- input-value stack ----
    fn push_value_stack(&mut self, addr: Self::Size) -> (r: Result<(), Self::Error>)
        ensures
            r is Ok ==> grows(old(self).st(), final(self).st())
                && final(self).st() == (St { cells: final(self).st().cells, data_len: final(self).st().data_len, values: old(self).st().values.push(addr), ..old(self).st() });

    fn pop_value_stack(&mut self) -> (r: Option<Self::Size>)
        ensures
            r matches Some(v) ==> old(self).st().values.len() > 0 && v == old(self).st().values.last()
                && final(self).st() == (St { values: old(self).st().values.drop_last(), ..old(self).st() }),
            r is None ==> old(self).st().values.len() == 0 && final(self).st() == old(self).st();

    fn get_current_value(&self) -> (r: Option<Self::Size>)
        ensures
            r matches Some(v) ==> self.st().values.len() > 0 && v == self.st().values.last(),
            r is None ==> self.st().values.len() == 0;

    fn get_current_value_mut(&mut self) -> (r: Option<&mut Self::Size>)
        ensures
            r matches Some(p) ==> old(self).st().values.len() > 0 && *p == old(self).st().values.last()
                && final(self).st() == (St { values: old(self).st().values.drop_last().push(*final(p)), ..old(self).st() }),
            r is None ==> old(self).st().values.len() == 0 && final(self).st() == old(self).st();

    // ---- frames ----
    fn push_frame(&mut self, index: Self::Size) -> (r: Result<(), Self::Error>)
        ensures
            r is Ok ==> grows(old(self).st(), final(self).st())
                && old(self).st().regs.is_prefix_of(final(self).st().regs)
                && final(self).st() == (St { cells: final(self).st().cells, data_len: final(self).st().data_len, regs: final(self).st().regs,
                        frames: old(self).st().frames.push(Frame { ret: index, saved_regs: old(self).st().regs }), ..old(self).st() });

    fn pop_frame(&mut self) -> (r: Result<Option<Self::Size>, Self::Error>)
        ensures
            r matches Ok(Some(v)) ==> old(self).st().frames.len() > 0 && v == old(self).st().frames.last().ret
                && final(self).st() == (St { regs: old(self).st().frames.last().saved_regs, frames: old(self).st().frames.drop_last(), ..old(self).st() }),
            r matches Ok(None) ==> old(self).st().frames.len() == 0
                && final(self).st().regs.is_prefix_of(old(self).st().regs)
                && final(self).st() == (St { regs: final(self).st().regs, ..old(self).st() });

    // ---- program tables ----
    fn get_instruction_len(&self) -> (r: Self::Size)
        ensures Self::sv(r) == self.st().instrs.len();

    fn get_instruction(&self, addr: Self::Size) -> (r: Option<(Instruction, Option<Self::Size>)>)
        ensures
            r matches Some(v) ==> Self::sv(addr) < self.st().instrs.len() && v == self.st().instrs[Self::sv(addr) as int],
            r is None ==> Self::sv(addr) >= self.st().instrs.len();

    fn get_instruction_cursor(&self) -> (r: Self::Size)
        ensures r == self.st().cursor;

    fn set_instruction_cursor(&mut self, addr: Self::Size) -> (r: Result<(), Self::Error>)
        ensures
            r is Ok ==> final(self).st() == (St { cursor: addr, ..old(self).st() });

    fn get_from_jump_table(&self, index: Self::Size) -> (r: Option<Self::Size>)
        ensures
            r matches Some(v) ==> Self::sv(index) < self.st().jumps.len() && v == self.st().jumps[Self::sv(index) as int],
            r is None ==> Self::sv(index) >= self.st().jumps.len();

    // ---- conversions done by the data object ----
    fn add_char_list_from(&mut self, from: Self::Size) -> (r: Result<Self::Size, Self::Error>)
        ensures
            r matches Ok(a) ==> only_cells(old(self).st(), final(self).st()) && final(self).st().cells.contains_key(a);
    fn add_byte_list_from(&mut self, from: Self::Size) -> (r: Result<Self::Size, Self::Error>)
        ensures
            r matches Ok(a) ==> only_cells(old(self).st(), final(self).st()) && final(self).st().cells.contains_key(a);
    fn add_symbol_from(&mut self, from: Self::Size) -> (r: Result<Self::Size, Self::Error>)
        ensures
            r matches Ok(a) ==> only_cells(old(self).st(), final(self).st()) && final(self).st().cells.contains_key(a);
    fn add_number_from(&mut self, from: Self::Size) -> (r: Result<Self::Size, Self::Error>)
        ensures
            r matches Ok(a) ==> only_cells(old(self).st(), final(self).st()) && final(self).st().cells.contains_key(a);

    // ---- host extension points (assumption A-HOST: the documented protocol) ----
    // An accepting host leaves exactly one result on the operand stack; a declining host leaves the
    // operand stack as it was. Either way the call is logged, cells only grow, nothing else changes.
    fn resolve(&mut self, symbol: Self::Symbol) -> (r: Result<bool, Self::Error>)
        ensures
            r matches Ok(b) ==> host_effect(old(self).st(), final(self).st(), HostCall::Resolve(symbol), b);

    fn apply(&mut self, external_value: Self::Size, input_addr: Self::Size) -> (r: Result<bool, Self::Error>)
        ensures
            r matches Ok(b) ==> host_effect(old(self).st(), final(self).st(), HostCall::Apply(external_value, input_addr), b);

    fn defer_op(&mut self, operation: Instruction, left: (GarnishDataType, Self::Size), right: (GarnishDataType, Self::Size)) -> (r: Result<bool, Self::Error>)
        ensures
            r matches Ok(b) ==> host_effect(old(self).st(), final(self).st(), HostCall::Defer(operation, left, right), b);

    /// Size as a natural number
    spec fn sv(s: Self::Size) -> nat;
    /// Number as a list index (the data object's own conversion; floats truncate)
    spec fn nidx(n: Self::Number) -> int;
    /// Number order / equality as the data object's PartialOrd / PartialEq implement them
    spec fn num_cmp(a: Self::Number, b: Self::Number) -> Option<Ordering>;
    /// the number is a non-negative whole number usable as a list position (what counting up from zero produces)
    spec fn is_idx(n: Self::Number) -> bool;
    spec fn num_eq(a: Self::Number, b: Self::Number) -> bool;
    spec fn num_zero() -> Self::Number;
    /// the window [lo, hi) of a sequence of length `len` that an Extents value selects (the data object's own clamping)
    spec fn ext_sel(len: nat, e: Extents<Self::Number>) -> (int, int);
    /// the flat item sequence a concatenation denotes (lists contribute their items, other values themselves); tied to `walk` in axioms()
    spec fn concat_flat(cells: Map<Self::Size, Cell<Self::Size, Self::Number, Self::Symbol, Self::Char, Self::Byte>>, addr: Self::Size) -> Seq<Self::Size>;
    spec fn num_one() -> Self::Number;
    spec fn num_max() -> Self::Number;
    spec fn chr_cmp(a: Self::Char, b: Self::Char) -> Option<Ordering>;
    spec fn byt_cmp(a: Self::Byte, b: Self::Byte) -> Option<Ordering>;

    /// Facts an implementor has to discharge about its associated types; assumed for generic Data
    /// (assumption A-AXIOMS). `Size` behaves as `nat`, `Clone` is identity, comparison operators
    /// implement the spec functions above.
    proof fn axioms()
        ensures
            // Size
            forall|a: Self::Size, b: Self::Size| #![auto] Self::sv(a) == Self::sv(b) ==> a == b,
            forall|a: Self::Size, b: Self::Size| #![auto] call_ensures(<Self::Size as Clone>::clone, (&a,), b) ==> a == b,
            forall|a: Self::Size, b: Self::Size| #![auto] call_requires(<Self::Size as Add>::add, (a, b)),
            forall|a: Self::Size, b: Self::Size, c: Self::Size| #![auto] call_ensures(<Self::Size as Add>::add, (a, b), c) ==> Self::sv(c) == Self::sv(a) + Self::sv(b),
            forall|a: Self::Size, b: Self::Size| #![auto] call_requires(<Self::Size as Sub>::sub, (a, b)) <== Self::sv(a) >= Self::sv(b),
            forall|a: Self::Size, b: Self::Size, c: Self::Size| #![auto] call_ensures(<Self::Size as Sub>::sub, (a, b), c) ==> Self::sv(c) == Self::sv(a) - Self::sv(b),
            forall|a: &mut Self::Size, b: Self::Size| #![auto] call_requires(<Self::Size as AddAssign>::add_assign, (a, b)),
            forall|a: &mut Self::Size, b: Self::Size| #![auto] call_ensures(<Self::Size as AddAssign>::add_assign, (a, b), ()) ==> Self::sv(*final(a)) == Self::sv(*a) + Self::sv(b),
            forall|a: Self::Size, b: Self::Size| #![auto] call_requires(<Self::Size as PartialOrd>::lt, (&a, &b)),
            forall|a: Self::Size, b: Self::Size, c: bool| #![auto] call_ensures(<Self::Size as PartialOrd>::lt, (&a, &b), c) ==> c == (Self::sv(a) < Self::sv(b)),
            forall|a: Self::Size, b: Self::Size| #![auto] call_requires(<Self::Size as PartialOrd>::gt, (&a, &b)),
            forall|a: Self::Size, b: Self::Size, c: bool| #![auto] call_ensures(<Self::Size as PartialOrd>::gt, (&a, &b), c) ==> c == (Self::sv(a) > Self::sv(b)),
            forall|a: Self::Size, b: Self::Size| #![auto] call_requires(<Self::Size as PartialOrd>::le, (&a, &b)),
            forall|a: Self::Size, b: Self::Size, c: bool| #![auto] call_ensures(<Self::Size as PartialOrd>::le, (&a, &b), c) ==> c == (Self::sv(a) <= Self::sv(b)),
            forall|a: Self::Size, b: Self::Size| #![auto] call_requires(<Self::Size as PartialOrd>::ge, (&a, &b)),
            forall|a: Self::Size, b: Self::Size, c: bool| #![auto] call_ensures(<Self::Size as PartialOrd>::ge, (&a, &b), c) ==> c == (Self::sv(a) >= Self::sv(b)),
            forall|a: Self::Size, b: Self::Size| #![auto] call_requires(<Self::Size as PartialEq>::eq, (&a, &b)),
            forall|a: Self::Size, b: Self::Size, c: bool| #![auto] call_ensures(<Self::Size as PartialEq>::eq, (&a, &b), c) ==> c == (a == b),
            forall|c: Self::Size| #![auto] call_ensures(<Self::Size as TypeConstants>::zero, (), c) ==> Self::sv(c) == 0,
            forall|c: Self::Size| #![auto] call_ensures(<Self::Size as TypeConstants>::one, (), c) ==> Self::sv(c) == 1,
            // Clone is identity
            forall|a: Self::Number, b: Self::Number| #![auto] call_ensures(<Self::Number as Clone>::clone, (&a,), b) ==> a == b,
            forall|a: Self::Symbol, b: Self::Symbol| #![auto] call_ensures(<Self::Symbol as Clone>::clone, (&a,), b) ==> a == b,
            forall|a: Self::Char, b: Self::Char| #![auto] call_ensures(<Self::Char as Clone>::clone, (&a,), b) ==> a == b,
            forall|a: Self::Byte, b: Self::Byte| #![auto] call_ensures(<Self::Byte as Clone>::clone, (&a,), b) ==> a == b,
            // Number comparisons
            forall|a: Self::Number, b: Self::Number| #![auto] call_requires(<Self::Number as PartialOrd>::partial_cmp, (&a, &b)),
            forall|a: Self::Number, b: Self::Number, c: Option<Ordering>| #![auto] call_ensures(<Self::Number as PartialOrd>::partial_cmp, (&a, &b), c) ==> c == Self::num_cmp(a, b),
            forall|a: Self::Number, b: Self::Number| #![auto] call_requires(<Self::Number as PartialOrd>::lt, (&a, &b)),
            forall|a: Self::Number, b: Self::Number, c: bool| #![auto] call_ensures(<Self::Number as PartialOrd>::lt, (&a, &b), c) ==> c == (Self::num_cmp(a, b) == Some(Ordering::Less)),
            forall|a: Self::Number, b: Self::Number| #![auto] call_requires(<Self::Number as PartialOrd>::ge, (&a, &b)),
            forall|a: Self::Number, b: Self::Number, c: bool| #![auto] call_ensures(<Self::Number as PartialOrd>::ge, (&a, &b), c) ==> c == (Self::num_cmp(a, b) == Some(Ordering::Greater) || Self::num_cmp(a, b) == Some(Ordering::Equal)),
            forall|a: Self::Number, b: Self::Number| #![auto] call_requires(<Self::Number as PartialOrd>::gt, (&a, &b)),
            forall|a: Self::Number, b: Self::Number, c: bool| #![auto] call_ensures(<Self::Number as PartialOrd>::gt, (&a, &b), c) ==> c == (Self::num_cmp(a, b) == Some(Ordering::Greater)),
            forall|a: Self::Number, b: Self::Number| #![auto] call_requires(<Self::Number as PartialOrd>::le, (&a, &b)),
            forall|a: Self::Number, b: Self::Number, c: bool| #![auto] call_ensures(<Self::Number as PartialOrd>::le, (&a, &b), c) ==> c == (Self::num_cmp(a, b) == Some(Ordering::Less) || Self::num_cmp(a, b) == Some(Ordering::Equal)),
            forall|a: Self::Number, b: Self::Number| #![auto] call_requires(<Self::Number as PartialEq>::eq, (&a, &b)),
            forall|a: Self::Number, b: Self::Number, c: bool| #![auto] call_ensures(<Self::Number as PartialEq>::eq, (&a, &b), c) ==> c == Self::num_eq(a, b),
            forall|a: Self::Symbol, b: Self::Symbol| #![auto] call_requires(<Self::Symbol as PartialEq>::eq, (&a, &b)),
            forall|a: Self::Symbol, b: Self::Symbol, c: bool| #![auto] call_ensures(<Self::Symbol as PartialEq>::eq, (&a, &b), c) ==> c == (a == b),
            forall|a: Self::Char, b: Self::Char| #![auto] call_requires(<Self::Char as PartialOrd>::partial_cmp, (&a, &b)),
            forall|a: Self::Char, b: Self::Char, c: Option<Ordering>| #![auto] call_ensures(<Self::Char as PartialOrd>::partial_cmp, (&a, &b), c) ==> c == Self::chr_cmp(a, b),
            forall|a: Self::Byte, b: Self::Byte| #![auto] call_requires(<Self::Byte as PartialOrd>::partial_cmp, (&a, &b)),
            forall|a: Self::Byte, b: Self::Byte, c: Option<Ordering>| #![auto] call_ensures(<Self::Byte as PartialOrd>::partial_cmp, (&a, &b), c) ==> c == Self::byt_cmp(a, b),
            // iterators yield their remaining items in order
            next_law::<Self::ListItemIterator>(), next_law::<Self::ConcatenationItemIterator>(), next_law::<Self::CharIterator>(),
            next_law::<Self::ByteIterator>(), next_law::<Self::SymbolListPartIterator>(),
            // extents: a window inside the sequence; (zero, max_value) selects all of it
            forall|len: nat, e: Extents<Self::Number>| #![trigger Self::ext_sel(len, e)] 0 <= Self::ext_sel(len, e).0 <= Self::ext_sel(len, e).1 <= len,
            forall|len: nat, e: Extents<Self::Number>| #![trigger Self::ext_sel(len, e)] e.start == Self::num_zero() && e.end == Self::num_max() ==> Self::ext_sel(len, e) == (0int, len as int),
            // equality of Size / Symbol / Char / Byte is structural, of Number numeric (vstd's PartialEqSpec view of PartialEq)
            <Self::Size as PartialEqSpec>::obeys_eq_spec(), forall|a: Self::Size, b: Self::Size| #![auto] a.eq_spec(&b) == (a == b),
            <Self::Symbol as PartialEqSpec>::obeys_eq_spec(), forall|a: Self::Symbol, b: Self::Symbol| #![auto] a.eq_spec(&b) == (a == b),
            <Self::Char as PartialEqSpec>::obeys_eq_spec(), forall|a: Self::Char, b: Self::Char| #![auto] a.eq_spec(&b) == (a == b),
            <Self::Byte as PartialEqSpec>::obeys_eq_spec(), forall|a: Self::Byte, b: Self::Byte| #![auto] a.eq_spec(&b) == (a == b),
            <Self::Number as PartialEqSpec>::obeys_eq_spec(), forall|a: Self::Number, b: Self::Number| #![auto] a.eq_spec(&b) == Self::num_eq(a, b),
            // derive(PartialEq) on SymbolListPart: same variant and equal payload
            <SymbolListPart<Self::Symbol, Self::Number> as PartialEqSpec>::obeys_eq_spec(),
            forall|a: SymbolListPart<Self::Symbol, Self::Number>, b: SymbolListPart<Self::Symbol, Self::Number>| #![auto] a.eq_spec(&b) == (match (a, b) { (SymbolListPart::Symbol(x), SymbolListPart::Symbol(y)) => x == y, (SymbolListPart::Number(x), SymbolListPart::Number(y)) => Self::num_eq(x, y), _ => false }),
            forall|a: SymbolListPart<Self::Symbol, Self::Number>, b: SymbolListPart<Self::Symbol, Self::Number>| #![auto] call_ensures(<SymbolListPart<Self::Symbol, Self::Number> as Clone>::clone, (&a,), b) ==> a == b,
            // Char / Byte order is the data object's PartialOrd (vstd's PartialOrdSpec view of the same fact)
            <Self::Char as PartialOrdSpec>::obeys_partial_cmp_spec(),
            forall|a: Self::Char, b: Self::Char| #![auto] a.partial_cmp_spec(&b) == Self::chr_cmp(a, b),
            <Self::Byte as PartialOrdSpec>::obeys_partial_cmp_spec(),
            forall|a: Self::Byte, b: Self::Byte| #![auto] a.partial_cmp_spec(&b) == Self::byt_cmp(a, b),
            // list positions: counting up from zero stays a position and agrees with nat order against sizes
            Self::is_idx(Self::num_zero()),
            forall|n: Self::Number| #![auto] Self::is_idx(n) ==> Self::nidx(n) >= 0,
            forall|n: Self::Number, m: Self::Number| #![auto] Self::is_idx(n) && n.increment_spec() == Some(m) ==> Self::is_idx(m) && Self::nidx(m) == Self::nidx(n) + 1,
            forall|a: Self::Number, b: Self::Number, c: Self::Number| #![auto] Self::is_idx(a) && Self::is_idx(b) && a.plus_spec(b) == Some(c) ==> Self::is_idx(c) && Self::nidx(c) == Self::nidx(a) + Self::nidx(b),
            forall|s: Self::Size| #![auto] Self::is_idx(<Self::DataFactory as GarnishDataFactory<Self::Size, Self::Number, Self::Char, Self::Byte, Self::Symbol, Self::Error, Self::SizeIterator, Self::NumberIterator>>::size_to_number_spec(s)),
            forall|a: Self::Number, b: Self::Number| #![auto] Self::is_idx(a) && Self::is_idx(b) ==> Self::num_cmp(a, b) == Some(nat_cmp(Self::nidx(a) as nat, Self::nidx(b) as nat)),
            forall|a: Self::Number, b: Self::Number| #![auto] Self::is_idx(a) && Self::is_idx(b) ==> Self::num_eq(a, b) == (Self::nidx(a) == Self::nidx(b)),
            // numeric equality is symmetric (unit K1 proves it for SimpleNumber: harness `eq_reflexive_symmetric`)
            forall|a: Self::Number, b: Self::Number| #![trigger Self::num_eq(a, b)] Self::num_eq(a, b) == Self::num_eq(b, a),
            // the flat item sequence the data object's concatenation iterator yields is the one the walker visits (`walk`, written from the
            // statement): proved for SimpleGarnishData in unit V3 (`collect_concatenation_indices.flat_items_in_order`), assumed for any other
            forall|cells: Map<Self::Size, Cell<Self::Size, Self::Number, Self::Symbol, Self::Char, Self::Byte>>, addr: Self::Size, fuel: nat|
                #![trigger walk(cells, seq![addr], false, fuel), Self::concat_flat(cells, addr)]
                walk(cells, seq![addr], false, fuel) matches Some(flat) ==> Self::concat_flat(cells, addr) == flat,
            // Number constants / conversions as indices
            forall|c: Self::Number| #![auto] call_ensures(<Self::Number as TypeConstants>::zero, (), c) ==> c == Self::num_zero(),
            forall|c: Self::Number| #![auto] call_ensures(<Self::Number as TypeConstants>::one, (), c) ==> c == Self::num_one(),
            forall|c: Self::Number| #![auto] call_ensures(<Self::Number as TypeConstants>::max_value, (), c) ==> c == Self::num_max(),
            Self::nidx(Self::num_zero()) == 0,
            // a number that compares >= the number made from a size also indexes at or past that size (truncation is monotone)
            forall|a: Self::Number, s: Self::Size| #![auto] (Self::num_cmp(a, <Self::DataFactory as GarnishDataFactory<Self::Size, Self::Number, Self::Char, Self::Byte, Self::Symbol, Self::Error, Self::SizeIterator, Self::NumberIterator>>::size_to_number_spec(s)) == Some(Ordering::Greater)
                || Self::num_cmp(a, <Self::DataFactory as GarnishDataFactory<Self::Size, Self::Number, Self::Char, Self::Byte, Self::Symbol, Self::Error, Self::SizeIterator, Self::NumberIterator>>::size_to_number_spec(s)) == Some(Ordering::Equal))
                ==> Self::nidx(a) >= Self::sv(s),
            Self::nidx(Self::num_one()) == 1,
            forall|s: Self::Size| #![auto] Self::nidx(<Self::DataFactory as GarnishDataFactory<Self::Size, Self::Number, Self::Char, Self::Byte, Self::Symbol, Self::Error, Self::SizeIterator, Self::NumberIterator>>::size_to_number_spec(s)) == Self::sv(s),
    ;
}


// ---------------------------------------------------------------------------------
// Assumed stand-ins for code outside Verus' subset (each one is named in the evidence)
// ---------------------------------------------------------------------------------

/// Stands for the Slice-of-Concatenation arm of list.rs::access_with_symbol, whose closure captures
/// `found` mutably (rule R8-cut). Assumed: leaves everything but the data table alone.
#[verifier::external_body]
pub fn verif_slice_concat_lookup<Data: GarnishData>(this: &mut Data, value: Data::Size, start: Data::Number, end: Data::Number, sym: Data::Symbol)
    -> (r: Result<Option<Data::Size>, RuntimeError<Data::Error>>)
    ensures
        r is Ok ==> only_cells(old(this).st(), final(this).st()),
        r matches Err(e) ==> e.code() == ErrorType::Unknown,
{ unimplemented!() }


/// Stands for the two `iterate_concatenation_mut(this, src, |this, _, addr| { list_index = this.add_to_list(..)?; .. })`
/// statements of casting.rs::type_cast, whose closures capture `list_index` mutably (rule R8-cut). Assumed: it only adds
/// items to the list under construction.
#[verifier::external_body]
pub fn verif_concat_into_list<Data: GarnishData>(this: &mut Data, src: Data::Size, list_index: Data::Size) -> (r: Result<Data::Size, RuntimeError<Data::Error>>)
    ensures
        r matches Ok(l) ==> grows(old(this).st(), final(this).st()) && old(this).st().building.contains_key(list_index)
            && (l == list_index || !old(this).st().building.contains_key(l))
            && final(this).st().building.contains_key(l)
            && final(this).st().building[l].cap == old(this).st().building[list_index].cap
            && final(this).st() == (St { cells: final(this).st().cells, data_len: final(this).st().data_len,
                    building: old(this).st().building.remove(list_index).insert(l, final(this).st().building[l]), ..old(this).st() }),
        r matches Err(e) ==> e.code() == ErrorType::Unknown,
{ unimplemented!() }

} // verus!
