"""bin/check --replay <file>: re-run a recorded counterexample / witness against the real code in /repo."""
import json, os, subprocess, sys, shutil, hashlib
HERE = os.path.dirname(os.path.abspath(__file__))
VERIF = os.path.dirname(HERE)
CACHE = os.path.join(VERIF, ".cache")


def repo_root():
    return os.environ.get("VERIF_REPO", "/repo")


def build_garnish_replay(repo):
    dst = os.path.join(CACHE, "replay")
    os.makedirs(os.path.join(dst, "src"), exist_ok=True)
    with open(os.path.join(VERIF, "replay", "Cargo.toml.in")) as f:
        t = f.read().replace("@REPO@", repo)
    open(os.path.join(dst, "Cargo.toml"), "w").write(t)
    shutil.copy(os.path.join(VERIF, "replay", "src", "main.rs"), os.path.join(dst, "src", "main.rs"))
    shutil.copy(os.path.join(repo, "Cargo.lock"), os.path.join(dst, "Cargo.lock"))
    env = dict(os.environ); env["CARGO_NET_OFFLINE"] = "true"
    env["CARGO_TARGET_DIR"] = os.path.join(CACHE, "replay-target-" + hashlib.sha256(repo.encode()).hexdigest()[:8])
    b = subprocess.run(["cargo", "build", "--offline"], cwd=dst, env=env, capture_output=True, text=True)
    if b.returncode != 0:
        print(b.stderr[-2000:]); return None
    return os.path.join(env["CARGO_TARGET_DIR"], "debug", "garnish_replay")


def run_program(which, src, repo=None):
    exe = build_garnish_replay(repo or repo_root())
    if exe is None:
        return None
    try:
        p = subprocess.run([exe, which, src], capture_output=True, text=True, timeout=20)
        return p.stdout.strip().split("\n")[-1]
    except subprocess.TimeoutExpired:
        return '{"outcome":"timeout"}'


def main(args):
    if not args:
        print("usage: bin/check --replay <file>"); return 2
    rec = json.load(open(args[0]))
    print(f"obligation: {rec.get('obligation')}  ({rec.get('source')})")
    cex = rec.get("counterexample")
    rc = 0
    if cex and cex.get("values_le_bytes") is not None:
        import kani_unit
        hexes = ["".join(f"{b:02x}" for b in v) for v in cex["values_le_bytes"]]
        rc = kani_unit.replay_k1(rec["unit"], cex["harness"], hexes, repo_root())
    elif cex and cex.get("program"):
        for which in cex.get("data", ["basic", "simple"]):
            out = run_program(which, cex["program"])
            print(f"{which}: {cex['program']!r} => {out}")
    else:
        print("the verifier produced no concrete failing input for this obligation; its output follows")
        for d in rec.get("verifier_output") or []:
            print(d.get("rendered") or d.get("message"))
        rc = 0
    return rc
