"""Build and run one Verus unit: preamble + mechanically extracted items + side-car contracts."""
import glob, json, os, re, subprocess, sys, time, hashlib
sys.path.insert(0, os.path.dirname(os.path.abspath(__file__)))
import extract as X
import specfile

VERIF = os.path.dirname(os.path.dirname(os.path.abspath(__file__)))
ASSUMPTION_PATTERNS = [
    ("external_body", re.compile(r"external_body")),
    ("assume_specification", re.compile(r"assume_specification")),
    ("assume", re.compile(r"\bassume\s*\(")),
    ("admit", re.compile(r"\badmit\s*\(")),
    ("axiom", re.compile(r"\baxiom\s+fn\b")),
    ("proof_fn_axioms", re.compile(r"proof fn axioms\(\)")),
    ("exec_allows_no_decreases_clause", re.compile(r"exec_allows_no_decreases_clause")),
    ("uninterp", re.compile(r"\buninterp\s+spec\b")),
]


def repo_root():
    return os.environ.get("VERIF_REPO", "/repo")


def _read(path):
    with open(path) as f:
        return f.read()


def fill_preamble(text, repo, report_items):
    out = []
    for line in text.split("\n"):
        m = re.match(r"^//@@EXTRACT\s+(\w+)\s+(\S+)\s+(\w+)(.*)$", line)
        if not m:
            out.append(line); continue
        kind, path, name, rest = m.groups()
        src = _read(os.path.join(repo, path))
        rep = []
        opts = dict(kv.split("=", 1) for kv in rest.split() if "=" in kv)
        if kind == "enum":
            s, e = X.find_item(src, "enum", name)
            txt = X._strip_attrs_and_docs(src[s:e], rep)
            txt = X._visibility(txt)
            if opts.get("nodefaults"):
                i = txt.index("{")
                head = re.sub(r"\s*=\s*(\(\)|\w+)", "", txt[:i])
                rep.append({"rule": "R7", "before": txt[:i].strip(), "after": head.strip()})
                txt = head + txt[i:]
            derive = opts.get("derive", "PartialEq,Eq,Structural,Clone,Copy")
            if derive != "none":
                txt = f"#[derive({derive.replace(',', ', ')})]\n" + txt
            report_items.append({"kind": "enum", "src": path, "name": name, "bytes": [s, e], "sha256": X.sha(src[s:e]), "rewrites": rep})
        elif kind == "struct":
            s, e = X.find_item(src, "struct", name)
            txt = X.rewrite_plain(src[s:e], rep)
            if opts.get("nodefaults"):
                i = txt.index("{")
                head = re.sub(r"\s*=\s*(\(\)|\w+)", "", txt[:i])
                rep.append({"rule": "R7", "before": txt[:i].strip(), "after": head.strip()})
                txt = head + txt[i:]
            if opts.get("pubfields"):
                i = txt.index("{")
                body = re.sub(r"(\n\s*)(\w+\s*:)", r"\1pub \2", txt[i:])
                body = body.replace("pub pub ", "pub ")
                txt = txt[:i] + body
            if opts.get("derive"):
                txt = f"#[derive({opts['derive'].replace(',', ', ')})]\n" + txt
            report_items.append({"kind": "struct", "src": path, "name": name, "bytes": [s, e], "sha256": X.sha(src[s:e]), "rewrites": rep})
        elif kind == "impls":
            parts = []
            for (s, e) in X.find_impls(src, name):
                parts.append(X.rewrite_plain(src[s:e], rep))
                report_items.append({"kind": "impl", "src": path, "name": name, "bytes": [s, e], "sha256": X.sha(src[s:e]), "rewrites": list(rep)})
            txt = "\n".join(parts)
        else:
            raise X.ExtractError(f"unknown EXTRACT kind {kind}")
        for a, b in [kv.split("=>") for kv in opts.get("subst", "").replace("%20", " ").split(";;") if "=>" in kv]:
            if a not in txt:
                raise X.ExtractError(f"preamble substitution anchor not found: {a!r}")
            txt = txt.replace(a, b)
            rep.append({"rule": "R8", "before": a, "after": b})
        out.append(f"// ---- extracted from {path} ({kind} {name}) ----")
        out.append(txt)
    return "\n".join(out)


def load_contracts(unit_dir):
    entries = []
    for p in sorted(glob.glob(os.path.join(unit_dir, "contracts", "*.spec"))):
        entries.extend(specfile.parse(p))
    return entries


def build(unit, repo=None, out_dir=None, canary=False):
    """Generate gen/<unit>.rs. Returns metadata dict."""
    repo = repo or repo_root()
    unit_dir = os.path.join(VERIF, "units", unit)
    out_dir = out_dir or os.path.join(VERIF, "gen")
    os.makedirs(out_dir, exist_ok=True)
    items = []
    pre = fill_preamble(_read(os.path.join(unit_dir, "preamble.rs")), repo, items)
    entries = load_contracts(unit_dir)
    unit_cfg = {}
    if os.path.exists(os.path.join(unit_dir, "unit.json")):
        unit_cfg = json.load(open(os.path.join(unit_dir, "unit.json")))
    body = []
    functions = []
    consts_done = set()
    free_consts = {}
    srcs = {}
    for e in entries:
        path = os.path.join(repo, e["src"])
        if path not in srcs:
            if not os.path.exists(path):
                raise X.ExtractError(f"lost anchor: {e['src']} missing")
            srcs[path] = _read(path)
        src = srcs[path]
        rep = []
        try:
            s, en = X.find_item(src, "fn", e["name"], within=e.get("within"))
        except X.ExtractError as ex:
            # R10 (relocation): a free function that is no longer in the file the contract names, but exists exactly once, with that
            # name, in another file of the same source directory, is the same real code moved - take it from there and say so.
            if e.get("within") or not str(ex).startswith("lost anchor"):
                raise
            hits = []
            d = os.path.dirname(path)
            for fn_ in sorted(os.listdir(d)):
                q = os.path.join(d, fn_)
                if q == path or not fn_.endswith(".rs"):
                    continue
                if q not in srcs:
                    srcs[q] = _read(q)
                try:
                    s2, e2 = X.find_item(srcs[q], "fn", e["name"], within=None)
                    hits.append((q, s2, e2))
                except X.ExtractError:
                    pass
            if len(hits) != 1:
                raise
            q, s, en = hits[0]
            src = srcs[q]
            rep.append({"rule": "R10", "before": e["src"], "after": os.path.relpath(q, repo), "count": 1})
        text = src[s:en]
        c = dict(e)
        if e.get("implheader") and " for " in e["implheader"]:
            c["in_trait_impl"] = True
        canary_on = False
        canary_copy = None
        if canary and e["ensures"] and not c.get("in_trait_impl") and not e.get("stub"):
            # vacuity guard: a renamed copy of the function under the same requires / invariants must NOT be able to prove
            # `false`; the original keeps its contract and is not re-verified in this run (external_body)
            cc = dict(c)
            cc["ensures"] = [("__canary", "false")]
            ctext, _ = X.rewrite_fn(text, cc, [])
            ctext = re.sub(r"\bfn\s+" + re.escape(e["name"]) + r"\b", "fn " + e["name"] + "__canary", ctext, count=1)
            canary_copy = ctext
            c["stub"] = "original of a canary copy (not re-verified in the canary run)"
            canary_on = True
        new, markers = X.rewrite_fn(text, c, rep)
        # R11 (associated constants): a method that names `Self::NAME` (upper case) for a `const NAME` item of its own impl block
        # gets that item emitted in front of it, once per generated impl block - a constant is part of the real text the method means
        if e.get("within") and e.get("implheader"):
            for cname in sorted(set(re.findall(r"\bSelf::([A-Z][A-Z0-9_]+)\b", text))):
                if (e["implheader"], cname) in consts_done:
                    continue
                try:
                    cs, ce = X.find_item(src, "const", cname, within=e.get("within"))
                except X.ExtractError:
                    continue
                ctext_ = src[cs:ce]
                if not re.match(r"\s*pub\b", ctext_):
                    ctext_ = "pub " + ctext_.lstrip()
                consts_done.add((e["implheader"], cname))
                rep.append({"rule": "R11", "before": "", "after": ctext_, "count": 1})
                new = ctext_ + "\n" + new
        # R12 (module constants): an upper-case name used bare in the function for which the same source file has a module-level
        # `const NAME: T = ..;` item gets that item emitted once at the top of the generated verus! block
        for cname in sorted(set(re.findall(r"(?<![:.\w])([A-Z][A-Z0-9_]{2,})\b(?!\s*(?:::|\(|!))", text))):
            if cname in free_consts:
                continue
            try:
                cs, ce = X.find_item(src, "const", cname, within=None)
            except X.ExtractError:
                continue
            ctext_ = src[cs:ce]
            if not re.match(r"\s*pub\b", ctext_):
                ctext_ = "pub " + ctext_.lstrip()
            free_consts[cname] = ctext_
            rep.append({"rule": "R12", "before": "", "after": ctext_, "count": 1})
        for pref in unit_cfg.get("path_strip", []):
            if pref in new:
                rep.append({"rule": "R9", "before": pref, "after": "", "count": new.count(pref)})
                new = new.replace(pref, "")
        wrap_open, wrap_close = "", ""
        if e.get("within"):
            wrap_open = e.get("impl_header", "")
        if canary_copy is not None:
            for pref in unit_cfg.get("path_strip", []):
                canary_copy = canary_copy.replace(pref, "")
            functions.append({"name": e["name"] + "__canary", "src": e["src"], "bytes": [s, en], "sha256": X.sha(text), "rewrites": [], "props": [], "ensures": ["__canary"],
                              "ensures_props": {}, "loops": [], "text": canary_copy, "within": e.get("within"), "canary_mode": "", "canary_on": True, "stub": None, "implheader": e.get("implheader")})
            canary_on = False
        functions.append({"name": e["name"], "src": e["src"], "bytes": [s, en], "sha256": X.sha(text), "rewrites": rep,
                          "props": e["props"], "ensures": [n for n, _ in c["ensures"]], "ensures_props": e["ensures_props"],
                          "loops": sorted(e["loops"].keys()), "text": new, "within": e.get("within"), "canary_mode": e.get("canary", ""), "canary_on": canary_on, "stub": e.get("stub"), "implheader": e.get("implheader")})
    meta = {"unit": unit, "items": items, "functions": functions, "preamble": pre, "canary": canary, "free_consts": free_consts}
    return meta


def emit(meta, gen_path, wrap_impls=None):
    """Write the generated file and compute the line map."""
    lines = meta["preamble"].split("\n")
    text = meta["preamble"].rstrip("\n") + "\n\nverus! {\n\n"
    for cname_ in sorted(meta.get("free_consts", {})):
        text += meta["free_consts"][cname_].rstrip("\n") + "\n"

    linemap = []
    # named lemma obligations: a preamble proof fn preceded by a `//@@LEMMA <props>` line (ends at the next line that is `}`)
    lemmas = []
    plines = meta["preamble"].rstrip("\n").split("\n")
    for i, ln in enumerate(plines):
        m = re.match(r"^//@@LEMMA\s+(.*)$", ln)
        if not m: continue
        mm = re.match(r"^pub proof fn (\w+)", plines[i + 1]) if i + 1 < len(plines) else None
        if not mm: continue
        j = i + 1
        while j < len(plines) and plines[j] != "}": j += 1
        lemmas.append({"name": mm.group(1), "props": m.group(1).split(), "src": "units/" + meta["unit"] + "/preamble.rs"})
        linemap.append({"fn": mm.group(1), "start": i + 2, "end": j + 1, "clauses": []})
    meta["lemmas"] = lemmas
    cur_line = text.count("\n") + 1
    groups = {}
    order = []
    for f in meta["functions"]:
        key = f.get("implheader") or ""
        if key not in groups:
            groups[key] = []; order.append(key)
        groups[key].append(f)
    for key in order:
        if key:
            hdr = key
            text += hdr + " {\n"; cur_line += hdr.count("\n") + 1
        for f in groups[key]:
            head = f"// ---- {f['src']}::{f['name']} sha256={f['sha256'][:16]} ----\n"
            text += head; cur_line += 1
            ftxt = f["text"].rstrip("\n") + "\n\n"
            start = cur_line
            # clause markers
            clause_lines = []
            for m in re.finditer(r"/\*@(\w+):(\w*)@\*/", ftxt):
                ln = start + ftxt.count("\n", 0, m.start())
                clause_lines.append([m.group(1), m.group(2), ln])
            # each clause extends to the line before the next marker (or the body start)
            body_line = None
            for i, cl in enumerate(clause_lines):
                nxt = clause_lines[i + 1][2] if i + 1 < len(clause_lines) else None
                cl.append((nxt - 1) if nxt else None)
            end = start + ftxt.count("\n") - 1
            # body start = first line after the last fn-level marker chunk that contains '{' alone... approximate: search
            for cl in clause_lines:
                if cl[3] is None:
                    cl[3] = cl[2] + 400  # bounded below by next marker; refined by kind check in classify()
            linemap.append({"fn": f["name"], "start": start, "end": end, "clauses": clause_lines})
            text += ftxt; cur_line += ftxt.count("\n")
        if key:
            text += "}\n\n"; cur_line += 2
    text += "} // verus!\n\nfn main() {}\n"
    with open(gen_path, "w") as fh:
        fh.write(text)
    meta["linemap"] = linemap
    meta["gen_path"] = gen_path
    meta["gen_sha256"] = hashlib.sha256(text.encode()).hexdigest()
    # assumption scan
    scan = {}
    for name, pat in ASSUMPTION_PATTERNS:
        scan[name] = len(pat.findall(text))
    meta["assumption_scan"] = scan
    # names of everything that is assumed rather than verified in the generated input (mechanical list for the evidence)
    names = []
    for m in re.finditer(r"#\[verifier::external_body\]\s*(?:#\[[^\]]*\]\s*)*(?:pub\s+)?(?:(?:open|closed|proof|exec)\s+)*(fn|struct)\s+(\w+)", text):
        names.append(f"external_body {m.group(1)} {m.group(2)}")
    for m in re.finditer(r"assume_specification(?:<[^\[]*>)?\s*\[\s*(.+?)\s*\]\s*\(", text):
        names.append("assume_specification " + re.sub(r"\s+", " ", m.group(1)))
    for m in re.finditer(r"uninterp\s+spec\s+fn\s+(\w+)", text):
        names.append(f"uninterpreted spec fn {m.group(1)}")
    meta["assumed_names"] = sorted(set(names))
    return meta


def run_verus(gen_path, extra=None, timeout=1800, rlimit=None, multiple_errors=20):
    cmd = ["verus", gen_path, "--output-json", "--time", "--error-format=json", "--multiple-errors", str(multiple_errors), "--triggers-mode", "silent"]
    if rlimit:
        cmd += ["--rlimit", str(rlimit)]
    if extra:
        cmd += extra
    t0 = time.time()
    try:
        p = subprocess.run(cmd, capture_output=True, text=True, timeout=timeout)
    except subprocess.TimeoutExpired as ex:
        return {"status": "timeout", "wall_s": time.time() - t0, "cmd": " ".join(cmd), "stdout": "", "stderr": str(ex), "diagnostics": [], "json": None}
    wall = time.time() - t0
    diags = []
    for line in p.stderr.split("\n"):
        line = line.strip()
        if line.startswith("{"):
            try:
                diags.append(json.loads(line))
            except Exception:
                pass
    js = None
    try:
        # stdout holds one JSON object (possibly preceded by other text)
        i = p.stdout.find("{")
        if i >= 0:
            js = json.loads(p.stdout[i:])
    except Exception:
        js = None
    return {"status": "ran", "returncode": p.returncode, "wall_s": wall, "cmd": " ".join(cmd), "stdout": p.stdout, "stderr": p.stderr,
            "diagnostics": diags, "json": js}


def classify(meta, res):
    """Map diagnostics to (function, clause). Returns dict with keys: failures, frontend_errors, verified_fns."""
    failures = []       # {"fn","clause","kind","message","spans"}
    frontend = []
    lm = meta["linemap"]
    def fn_at(line):
        for e in lm:
            if e["start"] <= line <= e["end"]:
                return e
        return None
    for d in res["diagnostics"]:
        if d.get("level") not in ("error",):
            continue
        msg = d.get("message", "")
        if msg.startswith("aborting due to"):
            continue
        spans = d.get("spans", [])
        gen_spans = [s for s in spans if os.path.basename(s.get("file_name", "")) == os.path.basename(meta["gen_path"])]
        VER = ("postcondition not satisfied", "precondition not satisfied", "assertion failed", "invariant not satisfied",
               "possible arithmetic underflow/overflow", "possible division by zero", "loop invariant", "decreases not satisfied",
               "recommendation not met", "index out of bounds", "cannot show", "unable to prove", "possible bit shift",
               "termination", "could not prove", "assert", "possible", "failed", "fails to satisfy")
        is_ver = any(k in msg for k in VER) and d.get("code") is None
        if not is_ver:
            fe = {"message": msg, "spans": [(s.get("file_name"), s.get("line_start")) for s in spans], "rendered": d.get("rendered", "")[:2000]}
            if "Resource limit (rlimit) exceeded" in msg:
                # with --multiple-errors Verus keeps looking for further errors in a function after the first failed obligation and may
                # run out of resources doing so; whether that leaves the unit undecided is settled below, once all failures are known
                fe["rlimit_fn"] = next((fn_at(s["line_start"])["fn"] for s in gen_spans if fn_at(s["line_start"])), None)
            frontend.append(fe)
            continue
        fn_e = None; clause = None; site = None
        for s in gen_spans:
            e = fn_at(s["line_start"])
            if e is None:
                continue
            hit = None
            for kind, name, a, b in e["clauses"]:
                if a <= s["line_start"] <= b:
                    hit = (kind, name)
            if hit and hit[0] in ("ensures", "invariant") and (s.get("label") or "").startswith("failed") or (hit and "postcondition" in msg and hit[0] == "ensures" and not s.get("is_primary")):
                fn_e = e; clause = hit
            elif fn_e is None:
                fn_e = e
            if not hit:
                site = {"line": s["line_start"], "text": (s.get("text") or [{}])[0].get("text", "").strip()}
        # a failed precondition of a callee: the function is the one containing the call site (primary span)
        if "precondition" in msg:
            for s in gen_spans:
                if s.get("is_primary"):
                    e = fn_at(s["line_start"])
                    if e: fn_e = e; clause = None
                    site = {"line": s["line_start"], "text": (s.get("text") or [{}])[0].get("text", "").strip()}
        failures.append({"fn": fn_e["fn"] if fn_e else None, "clause": (clause[1] if clause and clause[0] == "ensures" else (clause[1] if clause else None)),
                         "clause_kind": clause[0] if clause else "body", "message": msg, "site": site,
                         "rendered": d.get("rendered", "")[:3000]})
    # an rlimit report inside a function that already has a definite failed obligation belongs to the search for *further* errors
    # there: the failure stands and the report is dropped; an rlimit report in a function without a failure keeps the unit undecided
    failed_fns_ = set(f["fn"] for f in failures if f["fn"])
    frontend = [fe for fe in frontend if not (fe.get("rlimit_fn") and fe["rlimit_fn"] in failed_fns_)]
    verified = {}
    js = res.get("json") or {}
    times = (js.get("times-ms") or {})
    return {"failures": failures, "frontend_errors": frontend, "json": js}
