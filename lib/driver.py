"""Property-level driver: runs the units that own a property's obligations, decides, writes evidence."""
import json, os, sys, time, hashlib, re, subprocess, shutil
HERE = os.path.dirname(os.path.abspath(__file__))
VERIF = os.path.dirname(HERE)
sys.path.insert(0, HERE)
import verus_unit as VU
import extract as X

CACHE = os.path.join(VERIF, ".cache")
# runs against a scratch copy of the sources (VERIF_REPO, used by bin/seedrun --scratch) generate into a directory of their own, so that
# they can run next to a check of /repo itself
GEN = os.path.join(VERIF, "gen") if os.environ.get("VERIF_REPO", "/repo") == "/repo" else os.path.join(VERIF, "gen-" + __import__("hashlib").sha256(os.environ["VERIF_REPO"].encode()).hexdigest()[:8])
# VERIF_EVIDENCE_DIR: development runs against a seeded change (bin/seedrun) write their evidence elsewhere, so that the committed
# evidence files are always the record of a run on the unchanged tree
EVID = os.environ.get("VERIF_EVIDENCE_DIR") or os.path.join(VERIF, "evidence")
REPLAYS = os.path.join(VERIF, "replays")

# property -> units that own obligations for it (DESIGN.md section 5)
PROPERTY_UNITS = {
    "C06": ["V1_runtime", "V2_basic", "V3_simple", "R_refuter"],
    "C07": ["V1_runtime", "K1_numbers", "V2_basic", "V3_simple"],
    "C08": ["V1_runtime", "V2_basic", "V3_simple", "R_refuter"],
    "C09": ["K1_numbers", "V1_runtime"],
    "C10": ["V1_runtime", "R_refuter"],
    "C11": ["K1_numbers", "V1_runtime", "V2_basic", "V3_simple", "R_refuter"],
    "C12": ["K1_numbers", "V1_runtime", "R_refuter"],
    "C15": ["V2_basic", "V3_simple"],
    "C16": ["V1_runtime", "V2_basic", "V3_simple", "R_refuter"],
    "C17": ["V1_runtime", "V2_basic", "V3_simple"],
}
VERUS_UNITS = {"V1_runtime", "V2_basic", "V3_simple"}
KANI_UNITS = {"K1_numbers", "R_refuter"}


def repo_root():
    return os.environ.get("VERIF_REPO", "/repo")


def _sha(s):
    return hashlib.sha256(s.encode()).hexdigest()


def _tool_versions():
    out = {}
    try:
        out["verus"] = subprocess.run(["verus", "--version"], capture_output=True, text=True).stdout.strip().split("\n")[1].strip()
    except Exception:
        out["verus"] = "?"
    return out


# --------------------------------------------------------------------------------------
# Verus units
# --------------------------------------------------------------------------------------
def run_verus_unit(unit, tier, use_cache=True):
    """Returns a unit result dict (see keys below)."""
    t0 = time.time()
    res = {"unit": unit, "tool": "verus", "obligations": [], "assumed": [], "undecided": [], "functions": [], "extraction": {},
           "cmd": "", "wall_s": 0.0, "solver_s": 0.0, "canaries": {}}
    try:
        meta = VU.build(unit, repo=repo_root())
        os.makedirs(GEN, exist_ok=True)
        gen_path = os.path.join(GEN, unit + ".rs")
        VU.emit(meta, gen_path)
    except (X.ExtractError, VU.specfile.SpecError, FileNotFoundError, StopIteration, ValueError) as ex:
        res["undecided"].append(f"extraction: {ex}")
        res["wall_s"] = time.time() - t0
        return res
    os.makedirs(CACHE, exist_ok=True)
    key = _sha(meta["gen_sha256"] + json.dumps(_tool_versions()) + tier)
    cpath = os.path.join(CACHE, f"{unit}-{key[:24]}.json")
    run = None
    if use_cache and os.path.exists(cpath) and not os.environ.get("VERIF_NOCACHE"):
        try:
            run = json.load(open(cpath))
            run["cached"] = True
        except Exception:
            run = None
    if run is None:
        r = VU.run_verus(gen_path)
        cl = VU.classify(meta, r) if r["status"] == "ran" else {"failures": [], "frontend_errors": [], "json": None}
        run = {"status": r["status"], "returncode": r.get("returncode"), "wall_s": r["wall_s"], "cmd": r["cmd"], "failures": cl["failures"],
               "frontend_errors": cl["frontend_errors"], "json": cl["json"], "stderr_tail": r["stderr"][-4000:] if r["status"] != "ran" else "", "cached": False}
        # thorough: second run with another rlimit / seed to expose unstable proofs
        if tier == "thorough" and r["status"] == "ran" and not cl["frontend_errors"]:
            r2 = VU.run_verus(gen_path, extra=["--rlimit", "20", "-V", "spinoff-all"]) if False else VU.run_verus(gen_path, rlimit=30)
            cl2 = VU.classify(meta, r2) if r2["status"] == "ran" else {"failures": [], "frontend_errors": [{"message": "second run did not finish"}], "json": None}
            f1 = sorted((f["fn"] or "", f["clause"] or "") for f in cl["failures"])
            f2 = sorted((f["fn"] or "", f["clause"] or "") for f in cl2["failures"])
            run["second_run"] = {"wall_s": r2["wall_s"], "cmd": r2["cmd"], "same_verdicts": f1 == f2}
            if f1 != f2:
                run["frontend_errors"] = run["frontend_errors"] + [{"message": f"unstable proof: verdicts differ between rlimit settings: {f1} vs {f2}", "spans": [], "rendered": ""}]
        # vacuity guard (DESIGN 2.5): every contracted function, with `ensures false` in place of its own clauses, must fail
        if r["status"] == "ran" and not cl["frontend_errors"] and not os.environ.get("VERIF_NO_CANARY"):  # (dev switch used by bin/seedsuite only)
            try:
                cmeta = VU.build(unit, repo=repo_root(), canary=True)
                cpath_gen = os.path.join(GEN, unit + "_canary.rs")
                VU.emit(cmeta, cpath_gen)
                rc = VU.run_verus(cpath_gen, multiple_errors=1)
                ccl = VU.classify(cmeta, rc) if rc["status"] == "ran" else {"failures": [], "frontend_errors": [{"message": "canary run did not finish"}]}
                failed_fns = set(f["fn"] for f in ccl["failures"] if f["fn"])
                want = [f["name"] for f in cmeta["functions"] if f.get("canary_on")]
                vac = sorted(n[:-len("__canary")] for n in want if n not in failed_fns)
                run["canaries"] = {"functions": len(want), "failed_as_required": len(want) - len(vac), "vacuous": vac, "wall_s": round(rc["wall_s"], 1),
                                   "frontend_errors": [fe["message"][:200] for fe in ccl["frontend_errors"]][:3]}
            except Exception as ex:
                run["canaries"] = {"error": str(ex)[:300]}
        with open(cpath, "w") as fh:
            json.dump(run, fh)
    res["cmd"] = run["cmd"]
    res["canaries"] = run.get("canaries", {})
    cn = res["canaries"]
    if cn.get("vacuous"):
        res["undecided"].append("vacuous contract (ensures false verifies): " + ", ".join(cn["vacuous"][:5]))
    if cn.get("frontend_errors") or cn.get("error"):
        res["undecided"].append("canary run failed: " + str(cn.get("frontend_errors") or cn.get("error"))[:200])
    res["verus_wall_s"] = run["wall_s"]
    res["cached"] = run.get("cached", False)
    res["second_run"] = run.get("second_run")
    if run["status"] != "ran":
        res["undecided"].append(f"verus {run['status']}")
    # Verification is modular: a function that ran out of resources leaves *its own* obligations undecided. When the same run has a
    # definite failed obligation in another function, that failure is reported (the exhausted function's obligations are marked
    # undecided one by one); with no failure anywhere the whole unit stays undecided, as before - never an alarm on its own.
    has_fail = any(f.get("fn") for f in run["failures"])
    rl_fns = set(fe["rlimit_fn"] for fe in run["frontend_errors"] if fe.get("rlimit_fn")) if has_fail else set()
    for fe in run["frontend_errors"]:
        if fe.get("rlimit_fn") and has_fail:
            res.setdefault("exhausted_functions", []).append(fe["rlimit_fn"])
            continue
        res["undecided"].append("verus front end: " + fe["message"][:300])
    js = run.get("json") or {}
    vr = js.get("verification-results", {})
    if run["status"] == "ran" and not js:
        res["undecided"].append("verus produced no JSON result")
    if vr.get("encountered-vir-error"):
        res["undecided"].append("verus VIR error")
    # per function solver time
    ftime = {}
    try:
        for mod in js["times-ms"]["smt"]["smt-run-module-times"]:
            for fb in mod.get("function-breakdown", []):
                nm = fb["function"].split("::")[-1]
                ftime[nm] = ftime.get(nm, 0) + fb.get("time-micros", 0) / 1e6
        res["solver_s"] = js["times-ms"]["smt"]["total"] / 1000.0
    except Exception:
        pass
    failures = run["failures"]
    failed = {}
    for f in failures:
        if f["fn"] is None:
            res["undecided"].append("unattributed verifier error: " + f["message"][:200])
            continue
        cname = f["clause"] if (f["clause_kind"] in ("ensures",) and f["clause"]) else "body"
        failed.setdefault((f["fn"], cname), []).append(f)
    decided = run["status"] == "ran" and not res["undecided"]
    for f in meta["functions"]:
        fn = f["name"]
        entry = {"name": fn, "src": f["src"], "sha256": f["sha256"], "rewrites": len(f["rewrites"]), "stub": bool(f.get("stub")), "solver_s": round(ftime.get(fn, 0.0), 3)}
        res["functions"].append(entry)
        if f.get("stub"):
            res["assumed"].append({"name": f"{unit}.{fn}", "why": f["stub"], "clauses": f["ensures"]})
            continue
        clauses = [(c, f["ensures_props"].get(c) or f["props"]) for c in f["ensures"]]
        clauses.append(("body", f["props"]))
        for cname, props in clauses:
            fl = failed.get((fn, cname))
            ob = {"name": f"{unit}.{fn}.{cname}", "unit": unit, "fn": fn, "clause": cname, "props": props, "src": f["src"], "backend": "verus+z3", "kind": "proof",
                  "solver_s": round(ftime.get(fn, 0.0), 3)}
            if not decided or (fn in rl_fns and not fl):
                ob["status"] = "undecided"
            elif fl:
                ob["status"] = "failed"
                ob["detail"] = [{"message": x["message"], "site": x["site"], "rendered": x["rendered"]} for x in fl]
            else:
                ob["status"] = "discharged"
            res["obligations"].append(ob)
    # named lemmas of the preamble (spec-level facts a property needs, e.g. symmetry of the equality relation)
    for lm in meta.get("lemmas", []):
        fl = [x for k, v in failed.items() if k[0] == lm["name"] for x in v]
        ob = {"name": f"{unit}.{lm['name']}.lemma", "unit": unit, "fn": lm["name"], "clause": "lemma", "props": lm["props"], "src": lm["src"],
              "backend": "verus+z3", "kind": "proof", "solver_s": round(ftime.get(lm["name"], 0.0), 3)}
        if not decided: ob["status"] = "undecided"
        elif fl:
            ob["status"] = "failed"; ob["detail"] = [{"message": x["message"], "site": x["site"], "rendered": x["rendered"]} for x in fl]
        else: ob["status"] = "discharged"
        res["obligations"].append(ob)
    by_rule = {}
    for f in meta["functions"]:
        for rw in f["rewrites"]:
            by_rule[rw["rule"]] = by_rule.get(rw["rule"], 0) + 1
    for it in meta["items"]:
        for rw in it["rewrites"]:
            by_rule[rw["rule"]] = by_rule.get(rw["rule"], 0) + 1
    res["extraction"] = {"functions": len(meta["functions"]), "preamble_items": len(meta["items"]), "rewrites_by_rule": by_rule,
                         "generated_file": gen_path, "generated_sha256": meta["gen_sha256"],
                         "cuts": [rw for f in meta["functions"] for rw in f["rewrites"] if rw["rule"] in ("R8", "R8-cut", "STUB")]}
    res["assumption_scan"] = meta["assumption_scan"]
    res["assumed_names"] = meta.get("assumed_names", [])
    res["verified_count"] = vr.get("verified")
    res["error_count"] = vr.get("errors")
    with open(os.path.join(GEN, unit + ".extraction.json"), "w") as fh:
        json.dump({"items": meta["items"], "functions": [{k: v for k, v in f.items() if k != "text"} for f in meta["functions"]]}, fh, indent=1)
    res["wall_s"] = time.time() - t0
    return res


# --------------------------------------------------------------------------------------
# Kani units (implemented in kani_unit.py)
# --------------------------------------------------------------------------------------
def run_kani_unit(unit, tier, props):
    import kani_unit
    return kani_unit.run(unit, tier, props, repo_root())


# --------------------------------------------------------------------------------------
def load_known_findings():
    p = os.path.join(VERIF, "known_findings.json")
    if not os.path.exists(p):
        return {"findings": [], "fixed": []}
    return json.load(open(p))


def load_baseline():
    p = os.path.join(VERIF, "baseline_obligations.json")
    if not os.path.exists(p):
        return None
    return json.load(open(p))


def available_units():
    out = []
    for u in sorted(os.listdir(os.path.join(VERIF, "units"))):
        out.append(u)
    return out


def check_property(pid, tier, seed):
    t0 = time.time()
    units = [u for u in PROPERTY_UNITS.get(pid, []) if os.path.isdir(os.path.join(VERIF, "units", u))]
    if not units:
        print(f"property {pid} is not claimed (see MANIFEST.not_applicable)")
        return 2
    results = []
    for u in units:
        if u in VERUS_UNITS:
            results.append(run_verus_unit(u, tier))
        else:
            results.append(run_kani_unit(u, tier, [pid]))
    obligations, undecided, assumed = [], [], []
    for r in results:
        for o in r["obligations"]:
            if pid in o["props"]:
                obligations.append(o)
        undecided += [f"{r['unit']}: {x}" for x in r["undecided"]]
        assumed += r.get("assumed", [])
    known = load_known_findings()
    baseline = load_baseline()
    # drift guard: the obligation set must be the committed one
    names = sorted(o["name"] for o in obligations)
    if baseline is not None and not undecided:
        want = sorted(baseline.get(pid, {}).get(tier if tier in baseline.get(pid, {}) else "quick", []))
        if want and tier == "quick" and names != want:
            missing = sorted(set(want) - set(names)); extra = sorted(set(names) - set(want))
            undecided.append(f"obligation set differs from baseline_obligations.json (missing {missing[:5]}, extra {extra[:5]})")
    if not obligations and not undecided:
        undecided.append("no obligations generated")
    failed = [o for o in obligations if o["status"] == "failed"]
    und = [o for o in obligations if o["status"] == "undecided"]
    violations = []
    known_hits = []
    for o in failed:
        hit = None
        for k in known.get("findings", []):
            if k["property"] == pid and k["obligation"] == o["name"]:
                hit = k
        if hit:
            known_hits.append((o, hit))
        else:
            violations.append(o)
    os.makedirs(EVID, exist_ok=True)
    os.makedirs(REPLAYS, exist_ok=True)
    exit_code = 0
    lines = []
    for o, k in known_hits:
        lines.append(f"KNOWN-FINDING: property={pid} {o['name']}: {k['what_fails']}")
    replay_paths = []
    if undecided or und:
        exit_code = 2
    # a failed obligation whose counterexample was replayed on the real crates and reproduced there is a violation
    # whatever else is undecided (a timeout elsewhere cannot make the concrete failing input go away)
    confirmed = [o for o in violations if (o.get("counterexample") or {}).get("replayed_on_real_code", {}).get("rc") == 1]
    if confirmed and (undecided or und):
        exit_code = 1
        for o in confirmed:
            rp = write_replay(pid, o, results)
            replay_paths.append(rp)
            lines.append(f"VIOLATION property={pid} replay={rp}")
        violations = [o for o in violations if o not in confirmed]
    if violations and not undecided:
        exit_code = 1
        for o in violations:
            rp = write_replay(pid, o, results)
            replay_paths.append(rp)
            suffix = "" if o.get("counterexample") else " no-failing-input-found"
            lines.append(f"VIOLATION property={pid} replay={rp}{suffix}")
    elif violations and undecided:
        # never alarm while something is undecided, but show what failed
        for o in violations:
            lines.append(f"note: obligation {o['name']} failed but the run is undecided: {undecided[:2]}")
    for l in lines:
        print(l)
    proved = [o for o in obligations if o["kind"] == "proof"]
    bounded = [o for o in obligations if o["kind"] == "bounded"]
    discharged = [o for o in proved if o["status"] == "discharged"]
    wall = time.time() - t0
    ev = {
        "property_id": pid, "tier": tier, "seed": seed, "level": "proof",
        "coverage": {
            "obligations": len(proved) - len([1 for o, k in known_hits if o["kind"] == "proof"]),
            "discharged": len(discharged),
            "checker_cmd": " ; ".join(r["cmd"] for r in results if r.get("cmd")),
            "trusted_base": trusted_base(results),
            "samples": [{"obligation": o["name"], "source": o["src"], "status": o["status"], "backend": o["backend"]} for o in (proved[:6] + bounded[:2])],
            "obligation_names": names,
            "failed": [o["name"] for o in failed],
            "known_findings_matched": [{"obligation": o["name"], "what_fails": k["what_fails"]} for o, k in known_hits],
            "bounded_checks": [{"name": o["name"], "bound": o.get("bound"), "status": o["status"], "checks": o.get("checks")} for o in bounded],
            "functions_under_contract": [f"{f['src']}::{f['name']}" + (" (assumed)" if f.get("stub") else "") for r in results for f in r.get("functions", [])],
            "assumed_contracts": assumed,
            "solver_time_s": round(sum(r.get("solver_s", 0) for r in results), 2),
            "units": [{"unit": r["unit"], "tool": r["tool"], "wall_s": round(r["wall_s"], 2), "cached_solver_result": r.get("cached", False),
                       "extraction": r.get("extraction"), "assumption_scan": r.get("assumption_scan"), "assumed_names": r.get("assumed_names"), "canaries": r.get("canaries"),
                       "second_run": r.get("second_run")} for r in results],
            "undecided": undecided + [o["name"] for o in und],
            "not_decided": NOT_DECIDED.get(pid, ""),
            "explanation": "obligations = named ensures clauses and body obligations (callee preconditions, overflow, index, panics, loop invariants, termination) of the real functions extracted from the working tree, discharged by the named back end; bounded checks are listed separately and never counted",
        },
        "assumptions": ASSUMPTIONS_COMMON + [f"assumed contract: {a['name']} ({a['why']})" for a in assumed]
                       + [f"{r['unit']}: {n}" for r in results for n in (r.get("assumed_names") or [])],
        "wall_s": round(wall, 2),
        "violations": len([l for l in lines if l.startswith("VIOLATION")]),
    }
    with open(os.path.join(EVID, pid + ".json"), "w") as fh:
        json.dump(ev, fh, indent=1)
    if undecided or und:
        with open(os.path.join(EVID, pid + ".undecided.txt"), "w") as fh:
            fh.write("\n".join(undecided + [o["name"] for o in und]))
    if exit_code == 2:
        print(f"UNDECIDED property={pid}: " + "; ".join((undecided + [o['name'] for o in und])[:4]))
    elif exit_code == 1 and (undecided or und):
        print(f"note: other obligations of {pid} are undecided: " + "; ".join((undecided + [o['name'] for o in und])[:3]))
    elif exit_code == 0:
        print(f"OK property={pid} tier={tier} obligations={ev['coverage']['obligations']} discharged={len(discharged)} bounded={len(bounded)} known_findings={len(known_hits)} wall={wall:.1f}s")
    return exit_code


def write_replay(pid, o, results):
    path = os.path.join(REPLAYS, f"{pid}-{o['name']}.json")
    rec = {"property": pid, "obligation": o["name"], "unit": o["unit"], "function": o["fn"], "clause": o["clause"], "source": o["src"],
           "backend": o["backend"], "verifier_output": o.get("detail"), "counterexample": o.get("counterexample"),
           "replay_cmd": o.get("replay_cmd"),
           "note": "no concrete failing input was produced by the verifier" if not o.get("counterexample") else "concrete values from the verifier; re-run with bin/check --replay"}
    with open(path, "w") as fh:
        json.dump(rec, fh, indent=1)
    return path


ASSUMPTIONS_COMMON = [
    "Verus 0.2026.09.13 / Z3, rustc 1.98.1, Kani 0.68 / CBMC 6.11, the extractor and this driver are trusted",
    "A-TRAIT: the GarnishData trait contract of units/V1_runtime/preamble.rs holds for the data implementation in use (checked only where units V2 (Basic) and V3 (Simple) say so, clause by clause, by reading the same statement in both files)",
    "A-HOST: host callbacks (resolve/apply/defer_op) obey the documented protocol: accepted => exactly one valid result on the operand stack, declined => operand stack untouched",
    "A-AXIOMS: Size behaves as nat, Clone is identity, comparison operators implement the spec functions; iterators yield their remaining items in order (next_law); Extents(zero, max_value) selects a whole sequence; equality of Size/Symbol/Char/Byte is structural, of Number numeric and symmetric (K1 proves symmetry for SimpleNumber); counting up from zero stays a list position and the sum of two list positions is one (is_idx); push_register leaves the value table untouched; the data object's notion of a concatenation's flat item sequence (`concat_flat`) is the one the walker visits (`walk`; proved for SimpleGarnishData in unit V3) (proof fn axioms() / trait clauses)",
    "A-64BIT (unit V3): usize is 64 bits wide (`global size_of usize == 8`), as on the shipped targets",
    "A-MEM (unit V2): push_ok_n - the appends a method performs fit the machine (memory is not exhausted within the call)",
    "A-FROM: `?` converting Data::Error into RuntimeError yields err_from(e) with code Unknown (vstd leaves spec_from uninterpreted)",
    "RuntimeError::{new,new_message,unsupported_types,get_type} and std::cmp::Ordering::{is_lt,is_le,is_gt,is_ge} carry assumed specifications",
    "log macros, format! message text and derives are dropped by the extractor (rules R1, R2, R7)",
    "closures at call sites get parameter types and an `ensures` by substitution of the closure header (rule R8, listed per function under `extraction`); Verus checks the closure body against that `ensures`",
]

NOT_DECIDED = {
    "C06": "that `build` emits balanced programs (static half); that the per-implementation clauses of V2 (Basic) and V3 (Simple) for the stack methods are the same statements as the V1 trait contract is by reading, no refinement proof links the files; two closure statements of type_cast and the Slice-of-Concatenation arm of access_with_symbol are assumed stand-ins",
    "C07": "everything not under contract: lexer, parser, builder, conversions, display, optimise/clone, the sort inside Basic's end_list, SimpleGarnishData's text readers and builders (String code: get_char_list_len / get_char_list_item / add_to_current_char_list / end_char_list - a bounded Kani run over the real object did not finish), its text / byte / symbol-list iterators and clone/optimise; termination of cache_add's probe loop; the element conversions inside Basic's text / byte / symbol-list iterators (`unwrap()` on a cell of the window) and the Slice-of-List sub-arm of Simple's collect_concatenation_indices are assumed stand-ins",
    "C08": "two closure statements of type_cast (Concatenation -> List) are cut out and assumed; the call through SimpleGarnishData's function-pointer field is an assumed stand-in = one call of the installed pointer (Simple's and Basic's defer_op are proved to forward once, operands in source order, units V3 / V2)",
    "C09": "f64::powf and f64 % f64 (libm, unmodelled by CBMC); float * and / exactness and in-range float // (tier deep, not registered); integer ** exactness for exponents >= 32 only in the thorough tier (power_int; exponents 0..=31 are covered in the quick tier by the induction step power_small_exponent_int, listed as bounded)",
    "C10": "that `build` places right operands / arms behind the jumps; evaluation counts over whole programs",
    "C11": "slice operands (frame only); that the data implementations' iterators yield the sequences the trait contract names (proved for SimpleGarnishData's list-item and concatenation iterators asked for everything, unit V3: insertion order / flat item sequence; for BasicGarnishData's list-item, concatenation, char-list and byte-list iterators, unit V2: the requested window in order, the element conversion of the two text iterators and the draining of a list iterator being assumed stand-ins; Basic's symbol-list iterator beyond its window size and Simple's text iterators are assumed); termination of the work list; of the equivalence-relation laws of the unbounded relation symmetry, reflexivity and transitivity are machine-checked lemmas over the specification `weq` (given symmetric / transitive numeric equality - K1 proves both for SimpleNumber; reflexivity for NaN-free values of the types the statement lists), and hold for the code through `perform_equality_check.structural` on runs that return",
    "C12": "slices of char/byte lists; chars and bytes are ordered by the data object's own PartialOrd (assumed to be the natural order)",
    "C15": "SimpleGarnishData: the key computation of cache_add (DefaultHasher; cut out, nothing assumed about it), the text / symbol-list builders that feed cache_add (end_char_list, parse_add_*; end_byte_list is proved), termination of the probe loop; Basic's text/symbol adders, the two sorted tables' push_to_symbol_table_block / push_to_expression_symbol_block and conversions other than add_byte_list_from; SimpleDataList::default (takes `mut self`) establishing the three constants is by reading",
    "C16": "std's sort inside Basic's end_list (the window borrow, count and sort_by are an assumed stand-in; the rest of end_list is proved, Simple's end_list entirely); symbol lookup in a Slice of a Concatenation (assumed stand-in)",
    "C17": "that `build` compiles an identifier to one Resolve carrying its symbol; call counts over whole programs; what a host function does once called; the call through SimpleGarnishData's function-pointer fields itself is an assumed stand-in `verif_call_resolver` / `verif_call_op_handler` = exactly one call of the installed pointer (Simple's resolve / defer_op / call_resolver / call_op_handler are proved to be that one call with the same arguments, unit V3; Basic's three hooks forward exactly one call of the companion's hook, unit V2; Simple's `apply` is the trait's default)",
}


def trusted_base(results):
    tb = ["verus 0.2026.09.13 + z3", "rustc 1.98.1 (Verus toolchain)", "/verif/lib extractor + driver (python3)"]
    if any(r["tool"] == "kani" for r in results):
        tb += ["kani 0.68.0 + cbmc 6.11 + cadical"]
    return tb


def update_baseline():
    base = {}
    for pid in sorted(PROPERTY_UNITS):
        units = [u for u in PROPERTY_UNITS[pid] if os.path.isdir(os.path.join(VERIF, "units", u))]
        names = []
        for u in units:
            if u in VERUS_UNITS:
                r = run_verus_unit(u, "quick")
            else:
                r = run_kani_unit(u, "list", [pid])
            names += [o["name"] for o in r["obligations"] if pid in o["props"]]
        base[pid] = {"quick": sorted(names)}
    with open(os.path.join(VERIF, "baseline_obligations.json"), "w") as fh:
        json.dump(base, fh, indent=1)
    print("baseline written:", {k: len(v["quick"]) for k, v in base.items()})
    return 0


def main(argv):
    tier = os.environ.get("VERIF_TIER", "quick")
    seed = int(os.environ.get("VERIF_SEED", "0") or 0)
    args = list(argv)
    if "--tier" in args:
        i = args.index("--tier"); tier = args[i + 1]; del args[i:i + 2]
    if args and args[0] == "--update-baseline":
        return update_baseline()
    if args and args[0] == "--replay-k1":
        import kani_unit
        return kani_unit.replay_k1(args[1], args[2], args[3:], repo_root())
    if args and args[0] == "--replay":
        import replay
        return replay.main(args[1:])
    if not args:
        print(__doc__); return 2
    return check_property(args[0], tier, seed)
