"""Mechanical extractor: real item text from /repo + side-car contracts -> one Verus input file.

Closed list of rewrites (DESIGN.md section 2.1):
  R1  log macro statements (trace!/debug!/info!/warn!/error!) removed
  R2  format!(..) -> verif_msg()
  R3  RECV.and_then(|x| BODY) -> (match RECV { Ok(x) => BODY, Err(verif_e) => Err(verif_e) })
  R4  `-> T` -> `-> (r: T)`, visibility -> pub
  R5  contract clauses / loop invariants / proof prologues inserted (ghost only)
  R6  unimplemented!/todo!/unreachable!/panic! -> verif_panic(); R6b debug_assert*!(c) -> if !(c) { verif_panic() }
  R7  attributes and doc comments on extracted items removed (enums get a fixed derive list)
  R8  configured textual substitutions / cuts (side-car `subst`, `cut`), each listed in the extraction report
  R9  crate path qualifiers (`garnish_lang_traits::`, `crate::…::`) dropped: the generated file is a single crate
Anything else the verifier rejects makes the unit undecided.
"""
import hashlib, json, os, re, sys
from rstok import scan, sig, match_close, match_open, OPEN, CLOSE

class ExtractError(Exception):
    pass

LOG_MACROS = {"trace", "debug", "info", "warn", "error"}
PANIC_MACROS = {"unimplemented", "todo", "unreachable", "panic"}


# --------------------------------------------------------------------------------------
# locating items
# --------------------------------------------------------------------------------------
def _skip_test_mods(st):
    """Return set of indices of significant tokens lying inside `#[cfg(test)] mod x { .. }`."""
    skip = set()
    i = 0
    while i < len(st):
        t = st[i]
        if t.text == "#" and i + 1 < len(st) and st[i + 1].text == "[":
            j = match_close(st, i + 1)
            attr = "".join(x.text for x in st[i + 2:j])
            if attr.replace(" ", "") == "cfg(test)":
                k = j + 1
                # skip further attributes
                while k < len(st) and st[k].text == "#":
                    k = match_close(st, k + 1) + 1
                if k < len(st) and st[k].text in ("mod", "pub"):
                    while k < len(st) and st[k].text != "{" and st[k].text != ";":
                        k += 1
                    if k < len(st) and st[k].text == "{":
                        e = match_close(st, k)
                        skip.update(range(i, e + 1))
                        i = e + 1
                        continue
            i = j + 1
            continue
        i += 1
    return skip


def _depths(st):
    d, out = 0, []
    for t in st:
        if t.kind == "punct" and t.text in CLOSE and t.text == "}":
            d -= 1
        out.append(d)
        if t.kind == "punct" and t.text == "{":
            d += 1
    return out


def _item_start(st, i):
    """Walk back from keyword index i over visibility, qualifiers, attributes."""
    j = i
    while j > 0:
        p = st[j - 1]
        if p.text in ("pub", "const", "async", "unsafe", "extern", "default"):
            j -= 1; continue
        if p.text == ")" and j >= 2:
            o = match_open(st, j - 1)
            if o > 0 and st[o - 1].text == "pub":
                j = o - 1; continue
        if p.text == "]":
            o = match_open(st, j - 1)
            if o > 0 and st[o - 1].text == "#":
                j = o - 1; continue
        break
    return j


def find_item(src, kind, name, within=None):
    """Locate an item. kind in {fn, enum, struct, trait}. within: substring that must occur in the
    header of the enclosing impl/trait block (for methods). Returns (start_byte, end_byte)."""
    toks = scan(src)
    st = sig(toks)
    skip = _skip_test_mods(st)
    depths = _depths(st)
    # enclosing block headers
    want_depth = 0 if within is None else 1
    found = []
    for i, t in enumerate(st):
        if i in skip or t.kind != "ident" or t.text != kind:
            continue
        if i + 1 >= len(st) or st[i + 1].text != name:
            continue
        if depths[i] != want_depth:
            continue
        if within is not None:
            # find the opening brace of the enclosing block and its header
            k = i
            d = 0
            while k >= 0:
                if st[k].text == "}": d += 1
                elif st[k].text == "{":
                    if d == 0: break
                    d -= 1
                k -= 1
            h = k - 1
            while h >= 0 and st[h].text not in (";", "}", "{"):
                h -= 1
            header = " ".join(x.text for x in st[h + 1:k])
            if re.sub(r"\s+", "", within) not in re.sub(r"\s+", "", header):
                continue
        found.append(i)
    if not found:
        raise ExtractError(f"lost anchor: {kind} {name} (within={within}) not found")
    if len(found) > 1:
        raise ExtractError(f"ambiguous anchor: {kind} {name} found {len(found)} times")
    i = found[0]
    s = _item_start(st, i)
    # end: first `{` at bracket depth 0 after i (then its partner) or `;`
    k = i
    par = 0
    while k < len(st):
        tx = st[k].text
        if tx in ("(", "["): par += 1
        elif tx in (")", "]"): par -= 1
        elif tx == "{" and par == 0:
            e = match_close(st, k)
            return st[s].start, st[e].end
        elif tx == ";" and par == 0:
            return st[s].start, st[k].end
        k += 1
    raise ExtractError(f"no body for {kind} {name}")


def find_impls(src, type_name):
    """All inherent `impl<..> Name<..> {..}` blocks (not trait impls) outside test modules."""
    st = sig(scan(src))
    skip = _skip_test_mods(st)
    depths = _depths(st)
    out = []
    for i, t in enumerate(st):
        if i in skip or t.text != "impl" or depths[i] != 0:
            continue
        k = i
        while st[k].text != "{":
            k += 1
        header = [x.text for x in st[i:k]]
        if "for" in header:
            continue
        if type_name not in header:
            continue
        e = match_close(st, k)
        out.append((st[_item_start(st, i)].start, st[e].end))
    return out


# --------------------------------------------------------------------------------------
# token-level rewriting
# --------------------------------------------------------------------------------------
class Edit:
    def __init__(self, start, end, new, rule, note=""):
        self.start, self.end, self.new, self.rule, self.note = start, end, new, rule, note


def apply_edits(text, edits):
    edits = sorted(edits, key=lambda e: (e.start, e.end))
    out, pos = [], 0
    for e in edits:
        if e.start < pos:
            raise ExtractError(f"overlapping edits at {e.start} ({e.rule})")
        out.append(text[pos:e.start]); out.append(e.new); pos = e.end
    out.append(text[pos:])
    return "".join(out)


def _strip_attrs_and_docs(text, report):
    """R7: remove #[...] attributes and doc comments (/// or /** */) anywhere in the item text."""
    toks = scan(text)
    edits = []
    st = sig(toks)
    for i, t in enumerate(st):
        if t.text == "#" and i + 1 < len(st) and st[i + 1].text == "[":
            j = match_close(st, i + 1)
            edits.append(Edit(t.start, st[j].end, "", "R7", text[t.start:st[j].end]))
    for t in toks:
        if t.kind == "comment":
            edits.append(Edit(t.start, t.end, "", "R7c"))
    for e in edits:
        if e.rule == "R7":
            report.append({"rule": "R7", "before": e.note, "after": ""})
    return apply_edits(text, edits)


def _top_level_split(inner):
    """split macro arguments at top-level commas"""
    parts, depth, cur = [], 0, ""
    for ch in inner:
        if ch in "([{": depth += 1
        elif ch in ")]}": depth -= 1
        if ch == "," and depth == 0:
            parts.append(cur); cur = ""
        else:
            cur += ch
    if cur.strip(): parts.append(cur)
    return parts


def _macro_rewrites(text, report):
    """R1, R2, R6 over macro invocations `name!( .. )`."""
    st = sig(scan(text))
    edits = []
    i = 0
    while i < len(st) - 2:
        t = st[i]
        if t.kind == "ident" and st[i + 1].text == "!" and st[i + 2].text in ("(", "[", "{"):
            j = match_close(st, i + 2)
            name = t.text
            before = text[t.start:st[j].end]
            if name in LOG_MACROS:
                prev = st[i - 1].text if i > 0 else ""
                end = st[j].end
                if prev == "=>":
                    new = "()"
                else:
                    new = ""
                    if j + 1 < len(st) and st[j + 1].text == ";":
                        end = st[j + 1].end
                edits.append(Edit(t.start, end, new, "R1"))
                report.append({"rule": "R1", "before": before, "after": new})
            elif name == "format":
                edits.append(Edit(t.start, st[j].end, "verif_msg()", "R2"))
                report.append({"rule": "R2", "before": before, "after": "verif_msg()"})
            elif name in PANIC_MACROS:
                edits.append(Edit(t.start, st[j].end, "verif_panic()", "R6"))
                report.append({"rule": "R6", "before": before, "after": "verif_panic()"})
            elif name in ("debug_assert", "debug_assert_eq", "debug_assert_ne"):
                # R6b: a debug assertion panics in the checked build; reaching its failure becomes an obligation
                inner = text[st[i + 2].end:st[j].start]
                if name == "debug_assert":
                    cond = inner.split(",")[0] if "," not in inner or inner.count("(") == inner.count(")") and "," not in _top_level_split(inner)[0] else _top_level_split(inner)[0]
                    cond = _top_level_split(inner)[0]
                    new = "if !(" + cond.strip() + ") { verif_panic() }"
                else:
                    parts = _top_level_split(inner)
                    if len(parts) < 2:
                        raise ExtractError(f"cannot split {name}! arguments")
                    op = "==" if name == "debug_assert_eq" else "!="
                    new = "if !((" + parts[0].strip() + ") " + op + " (" + parts[1].strip() + ")) { verif_panic() }"
                end = st[j].end
                if j + 1 < len(st) and st[j + 1].text == ";":
                    end = st[j + 1].end
                edits.append(Edit(t.start, end, new, "R6b"))
                report.append({"rule": "R6b", "before": before, "after": new})
            elif name in ("vec", "assert", "matches"):
                pass
            else:
                raise ExtractError(f"unsupported macro {name}! in extracted text")
            i = j + 1
            continue
        i += 1
    return apply_edits(text, edits)


_STOP_BACK = {"=", ";", "{", "(", "[", ",", "=>", "return", "let", "match", "if", "else", "in", "&&", "||", "!", "+", "-", "*", "/",
              "==", "!=", "<", ">", "<=", ">=", "&", "|", "->", "while", "break"}


def _recv_start(st, dot):
    """st[dot] is the `.` before and_then; return index of the first token of the receiver."""
    j = dot - 1
    if st[j].text == "}":
        # block-like receiver (match/if expression used as a statement head): take the statement start
        o = match_open(st, j)
        k = o - 1
        depth = 0
        while k >= 0:
            tx = st[k].text
            if tx in (")", "]", "}"):
                k = match_open(st, k) - 1; continue
            if tx in (";", "{", "}", "=", "=>", "(" , ","):
                break
            k -= 1
        return k + 1
    while j >= 0:
        tx = st[j].text
        if tx in (")", "]"):
            j = match_open(st, j) - 1; continue
        if tx == ">" :
            # turbofish / generic args: walk back to matching '<'
            d = 0
            while j >= 0:
                if st[j].text == ">": d += 1
                elif st[j].text == ">>": d += 2
                elif st[j].text == "<": d -= 1
                elif st[j].text == "<<": d -= 2
                if d <= 0: break
                j -= 1
            j -= 1
            continue
        if st[j].kind in ("ident", "number", "string", "char") and tx not in _STOP_BACK:
            j -= 1; continue
        if tx in (".", "::", "?"):
            j -= 1; continue
        break
    return j + 1


def _and_then_rewrite(text, report):
    """R3, applied innermost-last until no `.and_then(|x| ..)` is left."""
    for _ in range(50):
        st = sig(scan(text))
        hit = None
        for i in range(len(st) - 3):
            if st[i].text == "." and st[i + 1].text == "and_then" and st[i + 2].text == "(" and st[i + 3].text == "|":
                hit = i
        if hit is None:
            return text
        i = hit
        close = match_close(st, i + 2)
        # closure parameter: | ident |
        if not (st[i + 4].kind == "ident" and st[i + 5].text == "|"):
            raise ExtractError("R3: closure parameter is not a plain identifier")
        param = st[i + 4].text
        body = text[st[i + 6].start:st[close - 1].end]
        rs = _recv_start(st, i)
        recv = text[st[rs].start:st[i - 1].end]
        if re.match(r"\s*(Some\s*\(|None\b)", body):
            # Option::and_then: the closure answers an Option, so the receiver is one
            new = f"(match {recv} {{ Some({param}) => {body}, None => None }})"
        else:
            new = f"(match {recv} {{ Ok({param}) => {body}, Err(verif_e) => Err(verif_e) }})"
        before = text[st[rs].start:st[close].end]
        report.append({"rule": "R3", "before": before, "after": new})
        text = text[:st[rs].start] + new + text[st[close].end:]
    raise ExtractError("R3 did not converge")


def _visibility(text):
    text = re.sub(r"\bpub\s*\(\s*(crate|super|self)\s*\)", "pub", text)
    return text


def rewrite_fn(text, contract, report, make_pub=True):
    """Apply R1..R7 and weave the contract into one function's text. Returns (new_text, clause_lines)
    where clause_lines maps clause names to (first_line, last_line) relative to the new text."""
    text = _strip_attrs_and_docs(text, report)
    text = _macro_rewrites(text, report)
    text = _and_then_rewrite(text, report)
    text = _visibility(text)
    for sub in contract.get("subst", []):
        a, b = sub[0], sub[1]
        if a not in text and len(sub) > 2 and sub[2]:
            continue
        if a not in text:
            raise ExtractError(f"R8 substitution anchor not found in {contract['name']}: {a!r}")
        text = text.replace(a, b)
        report.append({"rule": "R8", "before": a, "after": b})
    for (a, b, new) in contract.get("cut", []):
        i = text.find(a)
        j = text.find(b, i + len(a)) if i >= 0 else -1
        if i < 0 or j < 0:
            raise ExtractError(f"R8 cut anchors not found in {contract['name']}: {a!r} .. {b!r}")
        report.append({"rule": "R8-cut", "before": text[i:j + len(b)], "after": new})
        text = text[:i] + new + text[j + len(b):]
    st = sig(scan(text))
    # locate fn keyword, signature pieces
    fi = next(i for i, t in enumerate(st) if t.text == "fn")
    if make_pub and (fi == 0 or st[fi - 1].text != "pub") and not contract.get("in_trait_impl"):
        text = text[:st[fi].start] + "pub " + text[st[fi].start:]
        st = sig(scan(text))
        fi = next(i for i, t in enumerate(st) if t.text == "fn")
    # parameter list
    k = fi
    while st[k].text != "(":
        if st[k].text == "<":
            d = 0
            while True:
                if st[k].text == "<": d += 1
                elif st[k].text == ">": d -= 1
                elif st[k].text == ">>": d -= 2
                k += 1
                if d <= 0: break
            continue
        k += 1
    pclose = match_close(st, k)
    # body brace: first `{` at depth 0 after params
    b = pclose + 1
    par = 0
    arrow = None
    where = None
    while True:
        tx = st[b].text
        if tx in ("(", "["): par += 1
        elif tx in (")", "]"): par -= 1
        elif tx == "->" and par == 0 and arrow is None: arrow = b
        elif tx == "where" and par == 0 and where is None: where = b
        elif tx == "{" and par == 0: break
        b += 1
    body_open = b
    body_close = match_close(st, body_open)
    edits = []
    ret = contract.get("ret", "r")
    if arrow is not None:
        rt_end = (where if where is not None else body_open) - 1
        rt_s, rt_e = st[arrow + 1].start, st[rt_end].end
        rtype = text[rt_s:rt_e]
        if not rtype.strip().startswith("("+ret+":"):
            edits.append(Edit(rt_s, rt_e, f"({ret}: {rtype})", "R4"))
    # contract clauses
    clause_chunks = []  # (name, text)
    spec = []
    if contract.get("requires"):
        spec.append(("requires", None, "requires\n" + ",\n".join("        " + c.strip().rstrip(",") for c in contract["requires"]) + ","))
    ens = contract.get("ensures", [])
    first = True
    for name, body in ens:
        head = "ensures\n" if first else ""
        first = False
        spec.append(("ensures", name, head + "        " + body.strip().rstrip(",") + ","))
    if contract.get("decreases"):
        spec.append(("decreases", None, "decreases " + contract["decreases"].strip().rstrip(",") + ","))
    spec_text = ""
    markers = []
    for kind, name, chunk in spec:
        tag = f"/*@{kind}:{name or ''}@*/"
        spec_text += "\n    " + tag + " " + chunk
        markers.append((tag, kind, name, chunk.count("\n")))
    if spec_text:
        edits.append(Edit(st[body_open].start, st[body_open].start, spec_text + "\n", "R5"))
    # prologue
    if contract.get("prologue"):
        edits.append(Edit(st[body_open].end, st[body_open].end, "\n    proof { " + contract["prologue"].strip() + " }", "R5"))
    # loops
    loops = contract.get("loops", {})
    loop_start_edits = []
    loop_idx = -1
    i = body_open + 1
    seen = []
    while i < body_close:
        t = st[i]
        if t.kind == "ident" and t.text in ("while", "for", "loop") and (st[i - 1].text not in (".", "::", "'")):
            if t.text == "for" and st[i-1].text == "impl":
                i += 1; continue
            loop_idx += 1
            # find loop body brace
            j = i + 1
            par = 0
            while True:
                tx = st[j].text
                if tx in ("(", "["): par += 1
                elif tx in (")", "]"): par -= 1
                elif tx == "{" and par == 0:
                    # `match x {` inside a loop header does not occur in the extracted code; a closure
                    # body or struct literal would be parenthesised
                    break
                j += 1
            seen.append(loop_idx)
            for anchor, ghost, where_ in contract.get("at", []):
                if where_ in ("loop_end", "loop_start") and anchor == loop_idx:
                    g = ghost.strip()
                    txt = (" " + g[4:].strip() + " ") if g.startswith("raw:") else (" proof { " + g + " } ")
                    if where_ == "loop_end":
                        jc = match_close(st, j)
                        edits.append(Edit(st[jc].start, st[jc].start, txt, "R5"))
                    else:
                        loop_start_edits.append((st[j].end, txt))
            lc = loops.get(loop_idx)
            if lc:
                chunk = ""
                if lc.get("invariant_except_break"):
                    chunk += f"\n        invariant_except_break\n" + ",\n".join("            " + c.strip().rstrip(",") for c in lc["invariant_except_break"]) + ","
                if lc.get("invariant"):
                    tag = f"/*@invariant:loop{loop_idx}@*/"
                    chunk += f"\n        {tag} invariant\n" + ",\n".join("            " + c.strip().rstrip(",") for c in lc["invariant"]) + ","
                if lc.get("ensures"):
                    chunk += f"\n        ensures\n" + ",\n".join("            " + c.strip().rstrip(",") for c in lc["ensures"]) + ","
                if lc.get("decreases"):
                    chunk += f"\n        decreases " + lc["decreases"].strip().rstrip(",") + ","
                if chunk:
                    edits.append(Edit(st[j].start, st[j].start, chunk + "\n        ", "R5"))
                if lc.get("prologue"):
                    edits.append(Edit(st[j].end, st[j].end, "\n        proof { " + lc["prologue"].strip() + " }", "R5"))
        i += 1
    for li in loops:
        if li not in seen:
            raise ExtractError(f"lost anchor: loop {li} of {contract['name']} not found")
    # ghost statements anchored at a text pattern inside the body ("at" entries)
    for pos_, txt_ in loop_start_edits:
        edits.append(Edit(pos_, pos_, "\n        /*ls*/" + txt_, "R5"))
    for anchor, ghost, where_ in contract.get("at", []):
        if where_ in ("loop_end", "loop_start"):
            continue
        nth = 1
        if "#" in where_:
            where_, nth_ = where_.split("#"); nth = int(nth_)
        if where_ == "before_last":
            pos = text.rfind(anchor)
        else:
            pos = st[body_open].start - 1
            for _ in range(nth):
                pos = text.find(anchor, pos + 1)
                if pos < 0: break
        if pos < 0 or pos < st[body_open].start:
            raise ExtractError(f"lost anchor in {contract['name']}: {anchor!r}")
        p = pos if where_ in ("before", "before_last") else pos + len(anchor)
        g = ghost.strip()
        if g.startswith("raw:"):
            edits.append(Edit(p, p, " " + g[4:].strip() + " ", "R5"))
        else:
            edits.append(Edit(p, p, " proof { " + g + " } ", "R5"))
    if contract.get("stub"):
        # assumed contract: the real signature is kept, the body is not verified
        edits = [e for e in edits if e.end <= st[body_open].start]
        edits.append(Edit(st[body_open].start, st[body_close].end, "{ unimplemented!() }", "STUB"))
        report.append({"rule": "STUB", "before": "<body>", "after": "unimplemented!() under external_body: " + contract["stub"]})
        contract = dict(contract); contract["attrs"] = list(contract.get("attrs", [])) + ["verifier::external_body"]
    new = apply_edits(text, edits)
    attrs = "".join(f"#[{a}]\n" for a in contract.get("attrs", []))
    new = attrs + new
    return new, markers


def rewrite_enum(text, report):
    text = _strip_attrs_and_docs(text, report)
    text = _visibility(text)
    return "#[derive(PartialEq, Eq, Structural, Clone, Copy)]\n" + text


def rewrite_plain(text, report):
    text = _strip_attrs_and_docs(text, report)
    text = _macro_rewrites(text, report)
    text = _visibility(text)
    return text


def sha(text):
    return hashlib.sha256(text.encode()).hexdigest()
