"""Minimal Rust lexical scanner used by the extractor.

Only lexical structure is understood: comments, string/char literals, lifetimes, identifiers,
numbers and punctuation.  Everything the extractor does is expressed over this token stream and
byte offsets into the original text, so whatever is emitted is the original text except for the
listed rewrites.
"""
import re

class Tok:
    __slots__ = ("kind", "text", "start", "end")
    def __init__(self, kind, text, start, end):
        self.kind, self.text, self.start, self.end = kind, text, start, end
    def __repr__(self):
        return f"Tok({self.kind},{self.text!r},{self.start})"

_ident_re = re.compile(r"[A-Za-z_][A-Za-z0-9_]*")
_num_re = re.compile(r"[0-9][0-9A-Za-z_]*(\.[0-9][0-9A-Za-z_]*)?")
_raw_re = re.compile(r'b?r(#*)"')
PUNCT3 = ("<<=", ">>=", "...", "..=")
PUNCT2 = ("::", "->", "=>", "==", "!=", "<=", ">=", "&&", "||", "+=", "-=", "*=", "/=", "%=", "^=", "&=", "|=", "<<", ">>", "..")


def scan(src):
    """Return the list of tokens (including whitespace and comments) covering src exactly."""
    toks = []
    i, n = 0, len(src)
    while i < n:
        c = src[i]
        if c.isspace():
            j = i
            while j < n and src[j].isspace():
                j += 1
            toks.append(Tok("ws", src[i:j], i, j)); i = j; continue
        if src.startswith("//", i):
            j = src.find("\n", i)
            j = n if j < 0 else j
            toks.append(Tok("comment", src[i:j], i, j)); i = j; continue
        if src.startswith("/*", i):
            depth, j = 1, i + 2
            while j < n and depth:
                if src.startswith("/*", j): depth += 1; j += 2
                elif src.startswith("*/", j): depth -= 1; j += 2
                else: j += 1
            toks.append(Tok("comment", src[i:j], i, j)); i = j; continue
        m = _raw_re.match(src, i)
        if m:
            close = '"' + m.group(1)
            j = src.find(close, m.end())
            j = n if j < 0 else j + len(close)
            toks.append(Tok("string", src[i:j], i, j)); i = j; continue
        if c == '"' or (c == 'b' and src.startswith('b"', i)):
            j = i + (2 if c == 'b' else 1)
            while j < n and src[j] != '"':
                j += 2 if src[j] == '\\' else 1
            j += 1
            toks.append(Tok("string", src[i:j], i, j)); i = j; continue
        if c == "'" or (c == 'b' and src.startswith("b'", i)):
            k = i + (2 if c == 'b' else 1)
            # char literal or lifetime
            if k < n and src[k] == '\\':
                j = src.find("'", k + 2)
                toks.append(Tok("char", src[i:j + 1], i, j + 1)); i = j + 1; continue
            if k + 1 < n and src[k + 1] == "'":
                toks.append(Tok("char", src[i:k + 2], i, k + 2)); i = k + 2; continue
            # multi-byte char literal like 'é'
            m2 = re.compile(r"[^'\\\n]{1,4}'").match(src, k)
            if m2 and not _ident_re.match(src, k):
                toks.append(Tok("char", src[i:m2.end()], i, m2.end())); i = m2.end(); continue
            m3 = _ident_re.match(src, k)
            if m3:
                toks.append(Tok("lifetime", src[i:m3.end()], i, m3.end())); i = m3.end(); continue
            toks.append(Tok("punct", c, i, i + 1)); i += 1; continue
        m = _ident_re.match(src, i)
        if m:
            toks.append(Tok("ident", m.group(0), i, m.end())); i = m.end(); continue
        m = _num_re.match(src, i)
        if m:
            # do not swallow `..` of a range after an integer
            txt = m.group(0)
            toks.append(Tok("number", txt, i, i + len(txt))); i += len(txt); continue
        for p in PUNCT3:
            if src.startswith(p, i):
                toks.append(Tok("punct", p, i, i + 3)); i += 3; break
        else:
            for p in PUNCT2:
                if src.startswith(p, i):
                    toks.append(Tok("punct", p, i, i + 2)); i += 2; break
            else:
                toks.append(Tok("punct", c, i, i + 1)); i += 1
    return toks


def sig(toks):
    """Significant tokens only (no whitespace, no comments)."""
    return [t for t in toks if t.kind not in ("ws", "comment")]

OPEN = {"(": ")", "[": "]", "{": "}"}
CLOSE = {v: k for k, v in OPEN.items()}


def match_close(st, i):
    """st: significant tokens, st[i] is an opening bracket; return index of its partner."""
    depth = 0
    for j in range(i, len(st)):
        t = st[j]
        if t.kind == "punct":
            if t.text in OPEN: depth += 1
            elif t.text in CLOSE:
                depth -= 1
                if depth == 0:
                    return j
    raise ValueError("unbalanced brackets")


def match_open(st, i):
    """st[i] is a closing bracket; return index of its partner."""
    depth = 0
    for j in range(i, -1, -1):
        t = st[j]
        if t.kind == "punct":
            if t.text in CLOSE: depth += 1
            elif t.text in OPEN:
                depth -= 1
                if depth == 0:
                    return j
    raise ValueError("unbalanced brackets")
