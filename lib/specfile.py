"""Parser for the side-car contract files (units/*/contracts/*.spec).

  fn <repo-relative path>::<name>
    within: <text that must occur in the header of the enclosing impl block>   (methods only)
    props: C06 C07            properties served by the function's body obligations
    ret: r                    binder for the return value (default r)
    attr: verifier::exec_allows_no_decreases_clause
    prologue: <ghost statements placed in proof { } at body start>
    requires:
        <verbatim Verus clause list>
    ensures <clause-name> @C06,C08:
        <verbatim Verus clause>
    decreases: <expr>
    loop <ordinal>:
      invariant:
          <verbatim>
      decreases: <expr>
      prologue: <ghost statements>
    at before|after "<anchor text>" [#n]: <ghost statements>    (#n: n-th occurrence in the body)
    subst "<old>" => "<new>"   (rule R8, reported)
  end

Lines starting with `#` in column 0 are comments.  Directive lines sit at indent 2 (function level)
or indent 4 (inside `loop N:`); everything indented deeper is the verbatim body of the directive.
"""
import re

class SpecError(Exception):
    pass

_FN_DIR = re.compile(r"^  (within|props|ret|attr|prologue|requires|ensures|decreases|loop|at|subst|kind|canary|stub|implheader|cut)\b(.*)$")
_LOOP_DIR = re.compile(r"^    (invariant|invariant_except_break|ensures|decreases|prologue)\b(.*)$")


def parse(path):
    entries = []
    cur = None
    target = None   # (dict, key, mode) where body lines are appended
    loop = None
    with open(path) as f:
        lines = f.read().split("\n")
    for ln, raw in enumerate(lines, 1):
        if raw.startswith("#") or (not raw.strip() and target is None):
            continue
        if raw.startswith("fn ") or raw.startswith("item "):
            if cur is not None:
                raise SpecError(f"{path}:{ln}: missing end")
            m = re.match(r"^(fn|item)\s+(\S+)::(\w+)\s*$", raw)
            if not m:
                raise SpecError(f"{path}:{ln}: bad header")
            cur = {"kind": m.group(1), "src": m.group(2), "name": m.group(3), "requires": [], "ensures": [], "ensures_props": {},
                   "loops": {}, "attrs": [], "props": [], "at": [], "subst": [], "line": ln, "file": path}
            target = None; loop = None
            continue
        if raw.strip() == "end":
            if cur is None:
                raise SpecError(f"{path}:{ln}: stray end")
            _finish(cur)
            entries.append(cur); cur = None; target = None; loop = None
            continue
        if cur is None:
            if raw.strip():
                raise SpecError(f"{path}:{ln}: text outside entry")
            continue
        m = _FN_DIR.match(raw)
        if m and not (loop is not None and False):
            key, rest = m.group(1), m.group(2).strip()
            loop = None
            target = None
            if key == "loop":
                mm = re.match(r"^(\d+)\s*:\s*$", rest)
                if not mm: raise SpecError(f"{path}:{ln}: bad loop")
                loop = cur["loops"].setdefault(int(mm.group(1)), {})
                continue
            if key == "ensures":
                mm = re.match(r"^(\w+)\s*(@[\w,]+)?\s*:\s*(.*)$", rest)
                if not mm: raise SpecError(f"{path}:{ln}: bad ensures header")
                name = mm.group(1)
                props = mm.group(2)[1:].split(",") if mm.group(2) else []
                buf = [mm.group(3)] if mm.group(3) else []
                cur["ensures"].append([name, buf])
                cur["ensures_props"][name] = props
                target = buf
                continue
            if key == "at":
                ml = re.match(r'^(loop_end|loop_start)\s+(\d+)\s*:\s*(.*)$', rest)
                if ml:
                    buf = [ml.group(3)] if ml.group(3) else []
                    cur["at"].append([int(ml.group(2)), buf, ml.group(1)])
                    target = buf
                    continue
                mm = re.match(r'^(before_last|before|after)\s+"((?:[^"\\]|\\.)*)"\s*(#\d+)?\s*:\s*(.*)$', rest)
                if not mm: raise SpecError(f"{path}:{ln}: bad at")
                buf = [mm.group(4)] if mm.group(4) else []
                # `#n`: the n-th occurrence of the anchor text inside the body (1-based)
                cur["at"].append([mm.group(2).encode().decode("unicode_escape"), buf, mm.group(1) + (mm.group(3) or "")])
                target = buf
                continue
            if key == "cut":
                mm = re.match(r'^"((?:[^"\\]|\\.)*)"\s*\.\.\s*"((?:[^"\\]|\\.)*)"\s*=>\s*"((?:[^"\\]|\\.)*)"\s*$', rest)
                if not mm: raise SpecError(f"{path}:{ln}: bad cut")
                cur.setdefault("cut", []).append(tuple(g.encode().decode("unicode_escape") for g in mm.groups()))
                continue
            if key == "subst":
                opt = rest.startswith("?")
                mm = re.match(r'^\??\s*"((?:[^"\\]|\\.)*)"\s*=>\s*"((?:[^"\\]|\\.)*)"\s*$', rest)
                if not mm: raise SpecError(f"{path}:{ln}: bad subst")
                cur["subst"].append((mm.group(1).encode().decode("unicode_escape"), mm.group(2).encode().decode("unicode_escape"), opt))
                continue
            mm = re.match(r"^:\s*(.*)$", rest)
            if not mm: raise SpecError(f"{path}:{ln}: missing colon")
            val = mm.group(1)
            if key == "props": cur["props"] = val.split()
            elif key == "ret": cur["ret"] = val
            elif key == "within": cur["within"] = val
            elif key == "kind": cur["itemkind"] = val
            elif key == "canary": cur["canary"] = val
            elif key == "stub": cur["stub"] = val
            elif key == "implheader": cur["implheader"] = val
            elif key == "attr": cur["attrs"].append(val)
            elif key in ("prologue", "decreases"):
                buf = [val] if val else []
                cur[key] = buf; target = buf
            elif key == "requires":
                buf = [val] if val else []
                cur["requires"].append(buf); target = buf
            continue
        if loop is not None:
            m = _LOOP_DIR.match(raw)
            if m:
                key, rest = m.group(1), m.group(2).strip()
                mm = re.match(r"^:\s*(.*)$", rest)
                if not mm: raise SpecError(f"{path}:{ln}: missing colon")
                buf = [mm.group(1)] if mm.group(1) else []
                if key in ("invariant", "invariant_except_break", "ensures"):
                    loop.setdefault(key, []).append(buf)
                else:
                    loop[key] = buf
                target = buf
                continue
        if target is None:
            if raw.strip():
                raise SpecError(f"{path}:{ln}: unexpected text {raw!r}")
            continue
        target.append(raw)
    if cur is not None:
        raise SpecError(f"{path}: missing end at EOF")
    return entries


def _join(buf):
    return "\n".join(buf).strip()


def _finish(e):
    e["requires"] = [_join(b) for b in e["requires"] if _join(b)]
    e["ensures"] = [(n, _join(b)) for n, b in e["ensures"]]
    for k in ("prologue", "decreases"):
        if k in e: e[k] = _join(e[k])
    e["at"] = [(a, _join(b), w) for a, b, w in e["at"]]
    for l in e["loops"].values():
        for k in ("invariant", "invariant_except_break", "ensures"):
            if k in l: l[k] = [_join(b) for b in l[k] if _join(b)]
        for k in ("prologue", "decreases"):
            if k in l: l[k] = _join(l[k])
