"""Kani units: harness crates that path-depend on the real crates in /repo (nothing extracted or rewritten)."""
import json, os, re, shutil, subprocess, sys, time, hashlib
from concurrent.futures import ThreadPoolExecutor

HERE = os.path.dirname(os.path.abspath(__file__))
VERIF = os.path.dirname(HERE)
CACHE = os.path.join(VERIF, ".cache")

# harness -> (tier, [(clause, props)], kind, bound text, timeout_s)
K1 = {
    # C09 integers: complete (loop-free, all i32 x i32)
    "plus_int":                 ("quick", ["C09"], "proof", None, 600),
    "subtract_int":             ("quick", ["C09"], "proof", None, 600),
    "multiply_int":             ("quick", ["C09"], "proof", None, 900),
    "divide_int":               ("quick", ["C09"], "proof", None, 1500),
    "integer_divide_int":       ("quick", ["C09"], "proof", None, 1500),
    "remainder_shape_int":      ("quick", ["C09"], "proof", None, 600),
    "power_int":                ("thorough", ["C09"], "proof", None, 3600),   # measured 587 s
    "power_undefined_int":      ("quick", ["C09"], "proof", None, 600),
    # measured 103 s: the induction step over the exponent (one more factor: exact when it fits, undefined from then on), every base;
    # with power_undefined_int's base cases it gives exactness for exponents 0..=31 - labelled bounded because of the exponent range
    "power_small_exponent_int": ("quick", ["C09"], "bounded", "every base (all of i32), exponents 2..=31; the loop of i32::overflowing_pow is unwound completely for these exponents (unwinding assertion on); exponents >= 32 are covered by power_int (thorough tier) only", 900),
    "power_no_panic_int":       ("quick", ["C09"], "proof", None, 900),
    "zero_divisor_is_none":     ("quick", ["C09"], "proof", None, 900),
    "results_are_finite":       ("quick", ["C09"], "proof", None, 1500),
    "bitwise_and_int":          ("quick", ["C09"], "proof", None, 600),
    "bitwise_or_int":           ("quick", ["C09"], "proof", None, 600),
    "bitwise_xor_int":          ("quick", ["C09"], "proof", None, 600),
    "bitwise_shift_left_int":   ("quick", ["C09"], "proof", None, 600),
    "bitwise_shift_right_int":  ("quick", ["C09"], "proof", None, 600),
    "absolute_value_int":       ("quick", ["C09"], "proof", None, 600),
    "opposite_int":             ("quick", ["C09"], "proof", None, 600),
    "increment_int":            ("quick", ["C09"], "proof", None, 600),
    "decrement_int":            ("quick", ["C09"], "proof", None, 600),
    "bitwise_not_int":          ("quick", ["C09"], "proof", None, 600),
    "bitwise_float_is_none":    ("quick", ["C09"], "proof", None, 600),
    "mixed_promotes_to_float":  ("quick", ["C09"], "proof", None, 900),
    "integer_divide_float":     ("deep", ["C09"], "proof", None, 7200),      # in-range half: symbolic f64 division, > 15 min
    "integer_divide_float_quarters_8bit":  ("quick", ["C09"], "bounded", "operands k/4 with k in -128..=127", 900),
    "integer_divide_float_quarters_16bit": ("thorough", ["C09"], "bounded", "operands k/4 with k in -32768..=32767", 1800),
    "integer_divide_float_out_of_range": ("quick", ["C09"], "proof", None, 900),
    "unary_float":              ("quick", ["C09"], "proof", None, 900),
    "plus_float":               ("thorough", ["C09"], "proof", None, 1800),
    "subtract_float":           ("thorough", ["C09"], "proof", None, 1800),
    "remainder_exact_16bit":    ("thorough", ["C09"], "bounded", "operands restricted to -32768..=32767", 1800),
    # measured 9 min / 43 min: kept runnable (tier deep), not registered
    "multiply_float":           ("deep", ["C09"], "proof", None, 7200),
    "divide_float":             ("deep", ["C09"], "proof", None, 7200),
    # C11
    "eq_reflexive_symmetric":   ("quick", ["C11"], "proof", None, 600),
    "eq_transitive":            ("quick", ["C11"], "proof", None, 900),
    "eq_agrees_with_cmp":       ("quick", ["C11", "C12"], "proof", None, 600),
    "eq_is_numeric":            ("quick", ["C11"], "proof", None, 600),
    # C12
    "cmp_total_on_non_nan":     ("quick", ["C12"], "proof", None, 600),
    "cmp_antisymmetric":        ("quick", ["C12"], "proof", None, 600),
    "cmp_transitive":           ("quick", ["C12"], "proof", None, 900),
    "cmp_is_numeric":           ("quick", ["C12"], "proof", None, 600),
    "operators_are_readings_of_cmp": ("quick", ["C12"], "proof", None, 600),
    # C07
    "usize_from_no_panic":      ("quick", [], "proof", None, 600),
}
# Unit R: the real runtime functions over ModelData; every harness is a BOUNDED stand-in (stated bound), never counted as proved
RB = "ModelData: at most 12 cells, sequences of at most 3 elements, characters from a 3-letter alphabet, 32-bit integer numbers; loops unwound 8-10 times with unwinding assertions on"
R = {
    "eq_text":            ("quick", ["C11"], "bounded", RB, 900),
    "eq_text_symmetric":  ("quick", ["C11"], "bounded", RB, 900),
    "eq_bytes":           ("quick", ["C11"], "bounded", RB, 900),
    "eq_concatenations":  ("quick", ["C11"], "bounded", RB, 900),
    "cmp_text":           ("thorough", ["C12"], "bounded", RB, 1800),
    "truthiness":         ("quick", ["C10"], "bounded", RB, 900),
    "xor_classifies":     ("quick", ["C10"], "bounded", RB, 900),
    "end_expression_returns_to_caller": ("quick", ["C06"], "bounded", RB + "; at most 3 active calls, 4 instruction addresses", 900),
    "defer_protocol":     ("quick", ["C08"], "bounded", RB, 900),
    "access_list":        ("quick", ["C16"], "bounded", RB, 900),
    # ~32 min (measured 1903 s): the concatenation walker through ops::access on one fixed nested shape, index symbolic
    "access_concat_index": ("thorough", ["C06", "C16"], "bounded", RB + "; one fixed shape (a, (a, b), b) <> (b, k = a) whose flat sequence has five items (the nested list is one item), index -1..6; loops unwound 6 times", 3600),
}
TABLES = {"K1_numbers": K1, "R_refuter": R}
UNIT_CFG = {
    "K1_numbers": {"extra": [], "src": "data/src/data/number.rs", "key_dirs": ["data/src/data"], "key_files": ["traits/src/data.rs"], "replay_bin": "replay_k1", "panic_prop": "C07"},
    "R_refuter": {"extra": ["-Z", "stubbing"], "src": "runtime/src/runtime/*.rs over units/R_refuter/src/model.rs", "key_dirs": ["runtime/src", "traits/src", "data/src/data"], "key_files": [], "replay_bin": "replay_r", "panic_prop": None},
}
TIER_ORDER = {"quick": 0, "thorough": 1, "deep": 2}

PANIC_WORDS = ("overflow", "shift", "index out of bounds", "unwrap", "unreachable", "NaN", "division by zero", "attempt to", "dereference",
               "out of bounds", "panicked", "misaligned", "invalid", "unwinding assertion")


def prepare(unit, repo):
    src = os.path.join(VERIF, "units", unit)
    # one crate copy per source tree, so that a run against a scratch copy (bin/seedrun --scratch) cannot disturb a check of /repo
    dst = os.path.join(CACHE, unit if repo == "/repo" else unit + "-" + hashlib.sha256(repo.encode()).hexdigest()[:8])
    os.makedirs(dst, exist_ok=True)
    with open(os.path.join(src, "Cargo.toml.in")) as f:
        toml = f.read().replace("@REPO@", repo)
    with open(os.path.join(dst, "Cargo.toml"), "w") as f:
        f.write(toml)
    if os.path.isdir(os.path.join(dst, "src")):
        shutil.rmtree(os.path.join(dst, "src"))
    shutil.copytree(os.path.join(src, "src"), os.path.join(dst, "src"))
    shutil.copy(os.path.join(repo, "Cargo.lock"), os.path.join(dst, "Cargo.lock"))
    os.makedirs(os.path.join(dst, ".cargo"), exist_ok=True)
    with open(os.path.join(dst, ".cargo", "config.toml"), "w") as f:
        f.write("[net]\noffline = true\n")
    return dst


def _env(unit, repo):
    env = dict(os.environ)
    env["CARGO_NET_OFFLINE"] = "true"
    tag = hashlib.sha256(repo.encode()).hexdigest()[:8]
    env["CARGO_TARGET_DIR"] = os.path.join(CACHE, f"kani-target-{unit}-{tag}")
    return env


def run_harness(crate, env, h, timeout, extra=None):
    cmd = ["cargo", "kani", "--harness", "harness::" + h, "--exact", "--output-format", "terse"] + (extra or [])
    t0 = time.time()
    import signal
    def _limits():
        import resource
        cap = int(os.environ.get("VERIF_KANI_MEM_GB", "20")) * (1 << 30)
        resource.setrlimit(resource.RLIMIT_AS, (cap, cap))
    proc = subprocess.Popen(cmd, cwd=crate, env=env, stdout=subprocess.PIPE, stderr=subprocess.STDOUT, text=True, start_new_session=True, preexec_fn=_limits)
    try:
        out, _ = proc.communicate(timeout=timeout)
        status = "ran"
    except subprocess.TimeoutExpired:
        # kill the whole process group (cargo-kani, kani-driver, cbmc) - never by name
        try:
            os.killpg(proc.pid, signal.SIGKILL)
        except ProcessLookupError:
            pass
        try:
            out, _ = proc.communicate(timeout=30)
        except Exception:
            out = ""
        status = "timeout"
    return {"harness": h, "status": status, "out": out, "wall_s": time.time() - t0, "cmd": " ".join(cmd)}


def parse(out):
    res = {"verdict": None, "failed_checks": [], "checks": None, "time_s": None}
    m = re.search(r"VERIFICATION:- (SUCCESSFUL|FAILED)", out)
    if m:
        res["verdict"] = m.group(1)
    res["failed_checks"] = re.findall(r"Failed Checks: (.*)", out)
    m = re.search(r"\*\* (\d+) of (\d+) failed", out)
    if m:
        res["checks"] = int(m.group(2))
    m = re.search(r"Verification Time: ([0-9.]+)s", out)
    if m:
        res["time_s"] = float(m.group(1))
    if "0 successfully verified harnesses, 0 failures, 0 total" in out or "no harnesses matched" in out.lower():
        res["verdict"] = "NOHARNESS"
    return res


def concrete_values(crate, env, h, timeout, extra0=None):
    r = run_harness(crate, env, h, timeout, extra=(extra0 or []) + ["-Z", "concrete-playback", "--concrete-playback=print"])
    vals = []
    block = re.search(r"let concrete_vals: Vec<Vec<u8>> = vec!\[(.*?)\];", r["out"], re.S)
    if block:
        for m in re.finditer(r"vec!\[([0-9,\s]*)\]", block.group(1)):
            vals.append([int(x) for x in m.group(1).replace(" ", "").split(",") if x != ""])
    return vals


def run(unit, tier, props, repo):
    t0 = time.time()
    table = TABLES[unit]
    res = {"unit": unit, "tool": "kani", "obligations": [], "assumed": [], "undecided": [], "functions": [], "extraction": {"harness_crate": f"units/{unit}", "note": "real crates compiled as they stand; nothing extracted"},
           "cmd": "", "wall_s": 0.0, "solver_s": 0.0, "canaries": {}}
    listing = tier == "list"
    want_tier = "quick" if listing else tier
    cfg = UNIT_CFG[unit]
    hs = [h for h, (t, p, k, b, to) in table.items() if TIER_ORDER[t] <= TIER_ORDER.get(want_tier, 0)
          and (not props or set(p) & set(props) or (cfg["panic_prop"] and cfg["panic_prop"] in props))]
    def obl(h, clause, kind, status, detail=None, **kw):
        t, p, k, b, to = table[h]
        pr = list(p) if clause == "contract" else ([cfg["panic_prop"]] if cfg["panic_prop"] else list(p))
        o = {"name": f"{unit}.{h}.{clause}", "unit": unit, "fn": h, "clause": clause, "props": pr, "src": cfg["src"],
             "backend": "kani+cbmc+cadical", "kind": k if clause == "contract" else ("proof" if k == "proof" else "bounded"), "status": status}
        if b: o["bound"] = b
        if detail: o["detail"] = detail
        o.update(kw)
        return o
    if listing:
        for h in hs:
            if table[h][1]:
                res["obligations"].append(obl(h, "contract", table[h][2], "listed"))
            res["obligations"].append(obl(h, "no_panic", table[h][2], "listed"))
        return res
    crate = prepare(unit, repo)
    env = _env(unit, repo)
    # build once (codegen only) so the parallel runs only verify
    b = subprocess.run(["cargo", "kani", "--only-codegen"] + cfg["extra"], cwd=crate, env=env, capture_output=True, text=True)
    if b.returncode != 0:
        res["undecided"].append("kani build failed: " + (b.stderr or b.stdout)[-1500:])
        res["wall_s"] = time.time() - t0
        return res
    # result cache keyed by the sources that reach the harnesses
    key_src = ""
    for kd in cfg["key_dirs"]:
        for root, _, files in sorted(os.walk(os.path.join(repo, kd))):
            for f in sorted(files):
                key_src += open(os.path.join(root, f), errors="replace").read()
    for kf in cfg["key_files"]:
        key_src += open(os.path.join(repo, kf)).read()
    for root, _, files in os.walk(os.path.join(VERIF, "units", unit, "src")):
        for f in sorted(files):
            key_src += open(os.path.join(root, f)).read()
    key = hashlib.sha256(key_src.encode()).hexdigest()[:24]
    cpath = os.path.join(CACHE, f"{unit}-{key}.json")
    cache = {}
    if os.path.exists(cpath) and not os.environ.get("VERIF_NOCACHE"):
        try: cache = json.load(open(cpath))
        except Exception: cache = {}
    todo = [h for h in hs if h not in cache]
    with ThreadPoolExecutor(max_workers=int(os.environ.get("VERIF_JOBS", "12"))) as ex:
        for r in ex.map(lambda h: run_harness(crate, env, h, table[h][4], extra=cfg["extra"]), todo):
            p = parse(r["out"])
            cache[r["harness"]] = {"status": r["status"], "wall_s": r["wall_s"], "cmd": r["cmd"], "parsed": p, "tail": r["out"][-3000:]}
    with open(cpath, "w") as fh:
        json.dump({h: v for h, v in cache.items() if v["status"] == "ran" and v["parsed"]["verdict"] in ("SUCCESSFUL", "FAILED")}, fh)
    res["cmd"] = f"cargo kani --harness <h> --exact (x{len(hs)}, crate units/{unit} path-depending on {repo})"
    for h in hs:
        c = cache[h]; p = c["parsed"]
        res["solver_s"] += p.get("time_s") or 0
        res["functions"].append({"name": h, "src": cfg["src"], "stub": False, "solver_s": p.get("time_s"), "checks": p.get("checks")})
        if c["status"] == "timeout" or p["verdict"] in (None, "NOHARNESS"):
            res["undecided"].append(f"harness {h}: {c['status']} / {p['verdict']}")
            continue
        panic_fail = [f for f in p["failed_checks"] if any(w in f for w in PANIC_WORDS) and "assertion failed" not in f]
        contract_fail = [f for f in p["failed_checks"] if f not in panic_fail]
        if any("unwinding assertion" in f for f in p["failed_checks"]):
            res["undecided"].append(f"harness {h}: unwinding assertion failed (bound too small)")
            continue
        extra = {}
        if p["verdict"] == "FAILED":
            vals = c.get("concrete")
            if vals is None:
                vals = concrete_values(crate, env, h, table[h][4], cfg["extra"])
                c["concrete"] = vals
                with open(cpath, "w") as fh:
                    json.dump(cache, fh)
            if vals:
                hexes = ["".join(f"{b:02x}" for b in v) for v in vals]
                # replay the verifier's values against the real crates, outside the verifier
                rp = c.get("replayed")
                if rp is None:
                    rp = replay_k1_capture(unit, h, hexes, repo)
                    c["replayed"] = rp
                extra = {"counterexample": {"harness": h, "values_le_bytes": vals, "replayed_on_real_code": rp}, "replay_cmd": f"bin/check --replay-k1 {unit} {h} " + " ".join(hexes)}
        if table[h][1]:
            st = "failed" if (p["verdict"] == "FAILED" and contract_fail) else "discharged"
            res["obligations"].append(obl(h, "contract", table[h][2], st, detail=[{"message": m} for m in contract_fail] or None, checks=p.get("checks"), solver_s=p.get("time_s"), **(extra if st == "failed" else {})))
        st = "failed" if panic_fail else "discharged"
        res["obligations"].append(obl(h, "no_panic", table[h][2], st, detail=[{"message": m} for m in panic_fail] or None, checks=p.get("checks"), solver_s=p.get("time_s"), **(extra if st == "failed" else {})))
    if unit == "R_refuter":
        res["assumed"] = [{"name": "R_refuter: ModelData", "why": "an executable GarnishData implementation written in /verif that follows the trait contract; it stands for any conforming data object at bounded size", "clauses": []},
                          {"name": "R_refuter: alloc::fmt::format stubbed", "why": "error-message formatting carries no property", "clauses": []}]
        res["wall_s"] = time.time() - t0
        return res
    res["assumed"] = [{"name": f"{unit}: f64::powf / f64 % f64", "why": "libm calls CBMC does not model; float power and remainder are not verified", "clauses": []},
                      {"name": f"{unit}: i32 -> f64 conversion is exact", "why": "used to read the mixed integer/float order as the order of the denoted reals", "clauses": []}]
    res["wall_s"] = time.time() - t0
    return res


def replay_k1_capture(unit, h, hexes, repo):
    """Run the replay binary; returns {"rc": int, "line": str}. rc 1 = the real code violates the contract / panics on these values."""
    crate = prepare(unit, repo)
    env = _env(unit, repo)
    env["CARGO_TARGET_DIR"] = env["CARGO_TARGET_DIR"] + "-replay"
    rb = UNIT_CFG[unit]["replay_bin"]
    b = subprocess.run(["cargo", "build", "--offline", "--bin", rb], cwd=crate, env=env, capture_output=True, text=True)
    if b.returncode != 0:
        return {"rc": 2, "line": "replay build failed: " + b.stderr[-400:]}
    exe = os.path.join(env["CARGO_TARGET_DIR"], "debug", rb)
    try:
        p = subprocess.run([exe, h] + hexes, capture_output=True, text=True, timeout=60)
    except subprocess.TimeoutExpired:
        return {"rc": 2, "line": "replay timed out"}
    return {"rc": p.returncode, "line": (p.stdout.strip().split("\n") or [""])[-1]}


def replay_k1(unit, h, hexes, repo):
    crate = prepare(unit, repo)
    env = _env(unit, repo)
    env["CARGO_TARGET_DIR"] = env["CARGO_TARGET_DIR"] + "-replay"
    rb = UNIT_CFG[unit]["replay_bin"]
    b = subprocess.run(["cargo", "build", "--offline", "--bin", rb], cwd=crate, env=env, capture_output=True, text=True)
    if b.returncode != 0:
        print(b.stderr[-2000:]); return 2
    exe = os.path.join(env["CARGO_TARGET_DIR"], "debug", rb)
    p = subprocess.run([exe, h] + hexes, capture_output=True, text=True)
    print(p.stdout.strip())
    return p.returncode
