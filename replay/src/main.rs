//! Replays a witness against the real crates:  garnish_replay <basic|simple> <source text> [accept]
//! Runs lex -> parse -> build -> execute to completion with a logging host, prints one JSON object.
use garnish_lang::compiler::build::build;
use garnish_lang::compiler::lex::lex;
use garnish_lang::compiler::parse::parse;
use garnish_lang::simple::{execute_current_instruction, BasicDataCompanion, BasicGarnishData, DataError, SimpleGarnishData, SimpleRuntimeState};
use garnish_lang::{GarnishData, GarnishDataType, Instruction};
use std::cell::RefCell;
use std::panic::{catch_unwind, AssertUnwindSafe};

thread_local! {
    static LOG: RefCell<Vec<String>> = RefCell::new(vec![]);
}

#[derive(Default, Debug, Clone, PartialEq, Eq, PartialOrd)]
struct LogCompanion;
impl BasicDataCompanion<()> for LogCompanion {
    fn resolve(_d: &mut BasicGarnishData<(), Self>, symbol: u64) -> Result<bool, DataError> {
        LOG.with(|l| l.borrow_mut().push(format!("resolve({})", symbol)));
        Ok(false)
    }
    fn apply(_d: &mut BasicGarnishData<(), Self>, e: usize, i: usize) -> Result<bool, DataError> {
        LOG.with(|l| l.borrow_mut().push(format!("apply({},{})", e, i)));
        Ok(false)
    }
    fn defer_op(_d: &mut BasicGarnishData<(), Self>, op: Instruction, l: (GarnishDataType, usize), r: (GarnishDataType, usize)) -> Result<bool, DataError> {
        LOG.with(|lg| lg.borrow_mut().push(format!("defer_op({:?},{:?},{:?})", op, l.0, r.0)));
        Ok(false)
    }
}

fn run<D: GarnishData<Size = usize>>(data: &mut D, src: &str) -> Result<String, String>
where
    D::Error: std::fmt::Display,
{
    let tokens = lex(src).map_err(|e| format!("lex: {}", e))?;
    let parsed = parse(&tokens).map_err(|e| format!("parse: {}", e))?;
    build(parsed.get_root(), parsed.get_nodes().clone(), data).map_err(|e| format!("build: {}", e))?;
    let start = data.get_from_jump_table(0).ok_or("no jump point".to_string())?;
    data.set_instruction_cursor(start).map_err(|e| format!("{}", e))?;
    let u = data.add_unit().map_err(|e| format!("{}", e))?;
    data.push_value_stack(u).map_err(|e| format!("{}", e))?;
    let regs0 = data.get_register_len();
    let mut steps = 0usize;
    loop {
        match execute_current_instruction(data) {
            Err(e) => return Err(format!("execute: Err({:?}) message={:?} debug={}", e.get_type(), e.get_message(), format!("{:?}", e).chars().take(300).collect::<String>().replace('"', "`"))),
            Ok(info) => {
                if info.get_state() == SimpleRuntimeState::End {
                    break;
                }
            }
        }
        steps += 1;
        if steps > 100000 {
            return Err("step limit".into());
        }
    }
    let v = data.get_current_value().ok_or("no current value".to_string())?;
    let t = data.get_data_type(v).map_err(|e| format!("{}", e))?;
    let extra = match t {
        GarnishDataType::Number => format!("{}", data.get_number(v).map_err(|e| format!("{}", e))?),
        _ => String::new(),
    };
    Ok(format!("type={:?} value={} regs_delta={}", t, extra, data.get_register_len() as i64 - regs0 as i64))
}

fn main() {
    let args: Vec<String> = std::env::args().collect();
    let which = args.get(1).map(|s| s.as_str()).unwrap_or("basic");
    let src = args.get(2).cloned().unwrap_or_default();
    let out = catch_unwind(AssertUnwindSafe(|| match which {
        "simple" => {
            let mut d = SimpleGarnishData::new();
            d.set_op_handler(|_d, op, l, r| {
                LOG.with(|lg| lg.borrow_mut().push(format!("defer_op({:?},{:?},{:?})", op, l.0, r.0)));
                Ok(false)
            });
            d.set_resolver(|_d, s| {
                LOG.with(|lg| lg.borrow_mut().push(format!("resolve({})", s)));
                Ok(false)
            });
            run(&mut d, &src)
        }
        _ => {
            let mut d: BasicGarnishData<(), LogCompanion> = BasicGarnishData::new(LogCompanion).unwrap();
            run(&mut d, &src)
        }
    }));
    let log = LOG.with(|l| l.borrow().clone());
    match out {
        Ok(Ok(s)) => println!("{{\"outcome\":\"ok\",\"detail\":{:?},\"host\":{:?}}}", s, log),
        Ok(Err(e)) => println!("{{\"outcome\":\"err\",\"detail\":{:?},\"host\":{:?}}}", e, log),
        Err(p) => {
            let msg = p.downcast_ref::<String>().cloned().or(p.downcast_ref::<&str>().map(|s| s.to_string())).unwrap_or_default();
            println!("{{\"outcome\":\"panic\",\"detail\":{:?},\"host\":{:?}}}", msg, log)
        }
    }
}
